"""Generic exploration for the properties whose harness, model runner and oracle runner
share the line protocol:

  harness  <name>          -> lines  <runner>\t<case fields>\t|\t<impl fields>
  runner   <model>         case fields                 -> model fields   (tie: must equal impl fields)
  runner   <oracle>        case fields | impl fields   -> OK tag*        (tag = kind:detail)

Per-property configuration in PROPS.  A property may name several harness streams."""
import json, os, time
from collections import Counter
import lib

def cache_trace_oracle(fields, impl, model):
    """C14: per invocation the observable (real?, completion) is fixed by the property (the model's
    theorems: served = normalised most recent stored result under the same name within the timeout;
    real iff no usable entry).  Classify every deviation of the implementation's trace."""
    def ops(x):
        out, cur = [], []
        for f in x[1:]:
            if f == b";":
                out.append(cur)
                cur = []
            else:
                cur.append(f)
        return out
    if impl and impl[0] == b"panic":
        return [("panic", b"")]
    a, b = ops(impl), ops(model)
    tags = []
    for i, (x, y) in enumerate(zip(a, b)):
        if x == y:
            continue
        if x[0] == b"0" and y[0] == b"1":
            tags.append(("served-without-usable-entry", str(i).encode()))
        elif x[0] == b"1" and y[0] == b"0":
            tags.append(("real-invocation-despite-usable-entry", str(i).encode()))
        elif x[0] == b"0":
            tags.append(("wrong-entry-served", str(i).encode()))
        else:
            tags.append(("real-result-altered", str(i).encode()))
        break
    if not tags and len(a) != len(b):
        tags.append(("trace-length", b""))
    return tags


def _cut(x, mark=b"#"):
    return x[:x.index(mark)] if mark in x else x


def history_oracle(fields, impl, model=None):
    """C08: every step of the history must equal the first invocation of a freshly built copy
    of the same Action with the same Context (computed by the harness itself: the part after '#')."""
    if impl and impl[0] == b"panic":
        return [("panic", impl[1][:80] if len(impl) > 1 else b"")]
    if b"#" not in impl:
        return [("malformed", b"")]
    k = impl.index(b"#")
    actual, fresh = impl[1:k], impl[k + 1:]
    def steps(x):
        out, cur = [], []
        for f in x:
            if f == b";":
                out.append(cur)
                cur = []
            else:
                cur.append(f)
        return out
    a, b = steps(actual), steps(fresh)
    for i, (x, y) in enumerate(zip(a, b)):
        if x != y:
            return [("not-repeatable", ("step %d" % i).encode())]
    return []


def timeout_oracle(fields, impl, model):
    """C19: the outcome of every invocation must be one the timed model allows for the arranged
    durations, with its metadata, and the answer must come within d plus a scheduling margin
    (alarm threshold d + 2 s: machine load must not raise alarms)."""
    if impl and impl[0] == b"panic":
        return [("panic", impl[1][:80] if len(impl) > 1 else b"")]
    if not model or model[0] != b"ok":
        return [("model-error", b"")]
    steps = fields[1:]
    tags = []
    for i in range(len(model) - 1):
        allowed = model[1 + i].split(b"|")
        got = impl[1 + 2 * i]
        el, _, real = impl[2 + 2 * i].partition(b"/")
        el, real = int(el), int(real or b"-1")
        d = int(steps[3 * i])
        d2 = steps[3 * i + 1]
        dmin = min(d, int(d2)) if d2 != b"-" else d
        if got not in allowed and got in (b"alt", b"alt2") and (real < 0 or real >= dmin - 45):
            # the arranged duration was stretched by machine load up to (or beyond) the timeout: the
            # wrapped action really had not finished in time, so the alternative is the right answer
            continue
        if got not in allowed:
            tags.append(("wrong-outcome", b"invocation %d: got %s, allowed %s" % (i, got, model[1 + i])))
            break
        if el > d + 2000:
            tags.append(("late-answer", b"invocation %d: %d ms for d = %d ms" % (i, el, d)))
            break
    return tags


def split_project(fields, x):
    """drop the model-free flags the harness attaches to every candidate"""
    if len(x) >= 2 and x[1] == b"redirect":
        return x[:2]
    try:
        n = int(x[1])
        k = int(x[3 + n])
        rest = x[4 + n:]
        if len(rest) == 3 * k and k > 0:
            rest = rest[0::3]
        return x[:4 + n] + rest
    except (ValueError, IndexError):
        return x


def split_oracle(fields, impl, model):
    """C17: every candidate keeps the typed text up to the start of the last word byte for byte and
    re-reads (real lexer) as the earlier words followed by the candidate's value"""
    if impl and impl[0] == b"panic":
        return [("panic", impl[1][:80] if len(impl) > 1 else b"")]
    if len(impl) >= 2 and impl[1] == b"redirect":
        return []
    try:
        n = int(impl[1])
        k = int(impl[3 + n])
        rest = impl[4 + n:]
    except (ValueError, IndexError):
        return [("malformed", b"")]
    tags = []
    # the wrapped action's values and no-space characters, from the case: flags wb text nospace <values>
    try:
        ns = fields[3].decode("utf-8", "replace")
        nv = int(fields[4])
        vals = fields[5:5 + nv]
    except (ValueError, IndexError):
        ns, vals = "", []
    for i in range(k):
        cand, p, r = rest[3 * i:3 * i + 3]
        if p != b"1":
            tags.append(("prefix-not-preserved", cand))
            break
        if r != b"1":
            tags.append(("relex-differs", cand))
            break
        if len(vals) == k:
            v = vals[i].decode("utf-8", "replace")
            nospace = "*" in ns or (v != "" and v[-1] in ns)
            if cand.endswith(b" ") == nospace:
                # a blank follows the value unless no-space applies to the VALUE (not to its quoted form)
                tags.append(("blank-rule", cand))
                break
    return tags


def files_oracle(fields, impl, model):
    """C16: the harness's own listing of the denoted directory (os.ReadDir + os.Stat, plain path
    resolution) must equal the candidates that survive the prefix filter of the typed word"""
    if impl and impl[0] == b"panic":
        return [("panic", impl[1][:80] if len(impl) > 1 else b"")]
    if b"#" in impl:
        v = impl[impl.index(b"#") + 1]
        if v != b"match":
            return [("listing-differs", v[:200])]
    return []


# pid -> list of streams; each stream: harness name, model runner, oracle runner, counts

def total_oracle(fields, impl):
    """C18: the call returned normally (no panic, no fatal error, no hang) and what it printed is well formed"""
    if not impl:
        return [("no-result", b"")]
    st = impl[0]
    if st in (b"panic", b"died", b"hang", b"harness-error"):
        return [(st.decode(), impl[1][:120] if len(impl) > 1 else b"")]
    if len(impl) > 2 and impl[2].startswith(b"malformed"):
        return [("malformed-output", impl[2][:120])]
    return []


def slot_words(fields):
    """typed words and current word of a `slot` case (after the command-tree tokens)"""
    def skip(t):
        n = int(t[2]); t = t[3 + n:]
        nf = int(t[0]); t = t[1 + 4 * nf:]
        ns = int(t[1]); t = t[2:]
        for _ in range(ns):
            t = skip(t)
        return t
    t = skip(fields)
    n = int(t[0])
    return t[1:1 + n], t[1 + n]


def slot_oracle(fields, impl):
    """C01 on generated command trees: the completion offered for the current word carries the marker
    of ONE slot; the program itself (cobra + pflag executing the same tree on the line with the word
    completed) must deliver the completed word to exactly that slot."""
    if not impl or impl[0] != b"ok":
        return [("no-export", impl[0] if impl else b"")]
    slots, delivered = impl[1].split(b"+") if impl[1] else [], impl[2]
    if delivered in (b"-", b"rejected"):
        return []          # nothing offered for a slot / the program rejects the line: no claim
    if delivered not in slots:
        return [("slot-mismatch", impl[1] + b" -> " + delivered)]
    return []


SLOT_SUBS = {b"alpha", b"beta", b"gamma", b"sub", b"run", b"x"}
def _is_sub(w):
    return (w[:-6] if w.endswith(b"-alias") else w) in SLOT_SUBS


def pred_slot_parent_flag_before_subcommand(f):
    """a flag word typed before a sub-command name: cobra hands it to the sub-command (where it may be unknown, take
    another value, or count as a positional), carapace has parsed it with the parent"""
    ws, _ = slot_words(f["case"])
    for k, w in enumerate(ws):
        if _is_sub(w) and any(len(x) > 1 and x.startswith(b"-") for x in ws[:k]):
            return True
    return False


def _names_words(f):
    return slot_words(f["case"][1:])[0]


def pred_names_flag_before_subcommand(f):
    """names record for a sub-command with a flag word typed before the sub-command name"""
    ws = _names_words(f)
    return len(f["impl"]) > 1 and f["impl"][1] == b"names" and \
        any(_is_sub(w) and any(len(x) > 1 and x.startswith(b"-") for x in ws[:k]) for k, w in enumerate(ws))


def pred_names_subcommand_after_flag(f):
    """an offered sub-command name that cobra does not dispatch to because of a flag word typed before it"""
    d = f.get("detail", b"")
    return len(f["impl"]) > 1 and f["impl"][1] == b"subs" and any(len(x) > 1 and x.startswith(b"-") for x in _names_words(f)) and \
        (b":rejected:unknown flag" in d or b":rejected:unknown shorthand" in d or b":dispatched-to-" in d or b":rejected:flag needs an argument" in d
         or b":rejected:if any flags in the group" in d or b":rejected:invalid argument" in d)


def _bridge_words(f):
    """typed words of a bridge case (the list before the final current word)"""
    c = f["case"]
    # the words list is the last list in the case: scan from the end for a count that fits
    for k in range(len(c) - 2, -1, -1):
        try:
            n = int(c[k])
        except ValueError:
            continue
        if k + 1 + n == len(c) - 1:
            return c[k + 1:k + 1 + n]
    return []


def pred_bridge_first_word_after_dash(f):
    """carapace registration (A); the only `--` of the line is the last typed word"""
    ws = _bridge_words(f)
    if f["case"][0] != b"A" or b"--" not in ws:
        return False
    k = ws.index(b"--")
    # (a) the dash is the last typed word; (b) the last typed word after the dash looks like a flag: cobra takes it for
    # the flag whose value is being completed and removes it from the arguments it hands over
    return k == len(ws) - 1 or (len(ws[-1]) > 1 and ws[-1].startswith(b"-"))


def pred_slot_chain_before_subcommand(f):
    """a chain of shorthands (-abc, no `=`) typed before a sub-command name"""
    import re
    ws, _ = slot_words(f["case"])
    return any(_is_sub(w) and any(re.fullmatch(rb"-[A-Za-z]{2,}", a) for a in ws[:k]) for k, w in enumerate(ws))


PROPS = {
    "C18": dict(streams=[dict(harness="total", model=None, oracle_py=total_oracle, quick=6000, thorough=150000,
                              nontrivial=lambda f, impl: len(impl) > 3 and impl[0] == b"ok" and impl[3] not in (b"0", b"1"))],
                tie="Model/Total.v guards <-> the slice/index expressions and branch conditions regenerated from the source by tools/goaudit (Props/C18.v C18_sites_audited); the process-level behaviour is observed, not modelled",
                rule="one process per case (a panic in any goroutine, a fatal error and a hang are seen from outside; 20 s limit), started below a process NAMED bash / nu / cmd / zsh / "
                     "fish / elvish / pwsh / xonsh / sh so that ps.DetermineShell takes the shell specific patching paths. Program: a tree with string / bool / slice / optional-argument "
                     "flags, sub-commands completing styled values, MultiParts, ActionMultiParts, files, a failing and a missing external command, Split, a callback that reports an "
                     "error or applies Prefix(Kelvin sign) / Suffix / Filter, Batch with a message, a non-interspersed sub-command with Usage. Arguments: no argument, one (any shell "
                     "name, unknown, empty, invalid UTF-8), or shell + program name + 0-5 words from the tree's vocabulary and from {empty, -, --, lone and unbalanced quotes, "
                     "backquotes, invalid UTF-8, 3-12 kB words, non-ASCII, letters whose lower case has another byte length, tab/newline, redirection and pipe operators, ~name "
                     "paths, backslash}; environment: COMP_LINE (words joined by blanks / ; / | / > / ;# / tab, optional trailing operator, quote or comment) with COMP_POINT absent, "
                     "empty, negative, non-numeric, huge, beyond, inside or at the end of the line; COMP_TYPE, COMP_WORDBREAKS, CARAPACE_COMPLINE, CARAPACE_MATCH, CARAPACE_ZSH_HASH_DIRS, "
                     "NO_COLOR, CARAPACE_HIDDEN / LENIENT / UNFILTERED / NOSPACE / TOOLTIP. Verdict: no panic / fatal error / hang; output of the JSON shells decodes, no NUL in the others; "
                     "non-trivial = a completion was produced"),
    "C20": dict(streams=[dict(harness="bridge", model=None, oracle="bridge_oracle", quick=3000, thorough=40000,
                              nontrivial=lambda f, impl: len(impl) > 3)],
                tie="Model/Bridge.v cobra_values / cobra_directive / directive_to_action evaluated (extracted) on what the real program serves <-> real `__complete` and real `_carapace export` of the same registration and line",
                rule="A (3/5): a cobra command with --str and --bool; PositionalCompletion for 0-2 positions, optionally PositionalAny, DashCompletion for 0-2 positions, optionally "
                     "DashAny, a flag completion for --str; every action = 1-3 described values (values ending in / : = blank, non-ASCII; descriptions empty, with colons, "
                     "tabs, leading blanks) with no-space suffix sets {none, /, /:, *, =}; 0-3 typed words out of {w1 w2 w3 v -- --str v --str=v --bool}; current word empty or a letter. "
                     "`__complete words cur` must print exactly the model's value/description strings for the values `_carapace export` serves at that position, and the model's directive. "
                     "B (2/5): a cobra completion function (ValidArgsFunction or RegisterFlagCompletionFunc) answering 0-2 values (with tab-separated descriptions, several tabs) and every "
                     "combination of the directive bits Error NoSpace NoFileComp FilterFileExt FilterDirs, in a scratch directory with files and nested directories; the export must equal "
                     "the model's reading: the error message, the export of the same slot registered directly with ActionDirectories[.Chdir(first value)][.NoSpace()] / "
                     "ActionFiles(.ext...)[.NoSpace()], or the values with descriptions and no-space `*`"),
    "C07": dict(streams=[dict(harness="names", model=None, oracle="names_oracle", quick=5000, thorough=60000,
                              nontrivial=lambda f, impl: len(impl) > 1 and impl[1] in (b"names", b"subs"))],
                tie="Model/Flags.v names_offered / subcommand_names evaluated (extracted) on the flag set and given flags of the resolved command <-> the names the real `_carapace export` offers on the same tree and line",
                rule="generated command trees (as C01; plus one mutually exclusive group per command among its local and persistent flags, deprecated shorthands), 0-4 typed words "
                     "from the tree's vocabulary, CARAPACE_HIDDEN on in a third of the cases; current word: -, --, a prefix of --name, a chain of 1-3 shorthand letters (mostly "
                     "letters that take no argument, sometimes an unknown letter), empty, or a prefix of a sub-command name. Judged when cobra itself accepts the typed words: "
                     "(a) flag-name positions: offered names = rule(flags cobra presents for the resolved command, flags cobra reports as given, letters of the chain); "
                     "(b) first positional of a command: offered sub-command names = rule(sub-commands); (c) every offered name appended to the line (with a value if the flag "
                     "needs one) is executed by a fresh identical tree: it must be accepted, stay in / dispatch to the right command and set the flag the name stands for"),
    "C01": dict(streams=[dict(harness="slotfrag", model="slot", oracle=None, quick=6000, thorough=60000, nontrivial=lambda f, impl: len(impl) > 1 and impl[1] != b"M"),
                         dict(harness="tree", model=None, oracle="tree_oracle", quick=6000, thorough=80000,
                              nontrivial=lambda f, impl: len(impl) > 3 and impl[3] in (b"P", b"D", b"F")),
                         dict(harness="slot", model=None, oracle_py=slot_oracle, quick=9000, thorough=120000,
                              nontrivial=lambda f, impl: len(impl) > 2 and impl[2] not in (b"-", b"rejected"))],
                tie="Model/Pflag.v traverse (one command; long flags, shorthand words and chains, lone dash, --) <-> real `_carapace export` on the same flags and line: the slot (flag value + prefix / bool value / positional i / dash i / flag names / message) must be equal",
                rule="slotfrag: one cobra command with 0-4 flags of kinds bool/count/string/stringSlice/optional-argument (with or without shorthand), both interspersed modes, 0-5 typed words out of "
                     "{--name, --name=value (a value the type accepts; for strings also empty, a=b, -, --, -x), --namex, shorthand words (-s, chains of 1-3 letters, -svalue, -s=value, unknown letters, trailing =), "
                     "--, lone dash, empty word, --unknown, --=x, ---x, plain words}, current word empty / plain / -- / partial or complete --name / --name=partial; slot: generated command TREES (depth <= 3, aliases, persistent / hidden / deprecated flags, "
                     "shorthands, shorthand chains, -s=v, non-interspersed commands, hidden / deprecated sub-commands), 0-4 typed words from the tree's own vocabulary plus "
                     "--, -, empty, unknown flags; every flag / positional / dash slot of every command carries its own marker action; the completed line is executed by a "
                     "fresh identical tree and the slot that received the completed word is compared; non-trivial = a slot marker was offered and the program accepts the line"),
    "C11": dict(streams=[dict(harness="multiparts", model="multiparts", oracle="multiparts_oracle", quick=6000, thorough=200000)],
                tie="Model/MultiParts.v (tokenize, ToMultiPartsA) <-> real Action.MultiParts",
                rule="cases = (match mode, typed text, dividers, value list with description/style/tag) from VERIF_SEED by harness/multiparts.go "
                     "(18 divider lists incl. multi-character, overlapping, empty; values extending / truncating each other; typed text mostly a "
                     "prefix of a value, also ending inside a divider); non-trivial = at least one value has the typed text as prefix and contains "
                     "a divider; distinct by full case content"),
    "C12": dict(streams=[dict(harness="algebra", model="algebra", oracle="algebra_oracle", quick=6000, thorough=300000)],
                tie="Model/Action.v (invoke . denote) <-> real Action.Invoke of the same expression",
                rule="cases = (match mode, Context value/args/parts, Action expression of depth <= 5 over 24 node kinds with adversarial "
                     "parameters: empty strings, overlapping prefixes, separators of length 0-2, n in {-1,0,1,2,3,4}) from VERIF_SEED by "
                     "harness/algebra.go; non-trivial = the result has at least one value or message; distinct by full case content"),
    "C10": dict(streams=[dict(harness="determinism", model=None, oracle=None, quick=1600, thorough=60000,
                             nontrivial=lambda f, impl: len(impl) == 3 and impl[0] == b"same" and int(impl[2]) > 200,
                             oracle_py=lambda f, impl: [] if impl and impl[0] == b"same" else
                                 [("nondeterministic" if impl and impl[0] == b"differs" else "panic", impl[1] if len(impl) > 1 else b"")])],
                tie="Gen/Tables.v common_ByDisplay_less_fields (ByDisplay.Less) and Gen/Sites.v map_range_sites (every range over a map) <-> Proofs/Determinism.v",
                rule="cases = Action expressions (algebra grammar, biased to equal displays with different values under Batch, several "
                     "messages, MultiParts over Batch) x typed word; each rebuilt, invoked and rendered for all 13 formats 25 times in one "
                     "process, raw bytes compared; non-trivial = the rendering is non-empty for some format; distinct by case content"),
    "C13": dict(streams=[dict(harness="import", model="import", oracle="import_oracle", quick=6000, thorough=300000,
                             nontrivial=lambda f, impl: len(f) > 6 or (impl and impl[0] != b"msg"))],
                tie="Model/JsonParse.v + Model/Export.v (jparse, of_json, import) and Model/Shells.v export_format <-> real json.Marshal / ActionImport",
                rule="cases = 40% round trips (generated exports: quotes, backslashes, control characters, U+2028, non-BMP text, <>&, 0..600 values) "
                     "printed by the real Export.MarshalJSON and re-imported; 60% byte strings offered to ActionImport: real documents mutated 1-2 "
                     "times (truncation at any byte, byte flips, key replacement incl. case variants, type swaps, extra / duplicate keys, trailing "
                     "garbage, fragments, null elements, wrapping); non-trivial = a round trip with content or a mutated document that is still accepted"),
    "C14": dict(streams=[dict(harness="cache", model="cache", oracle=None, quick=600, thorough=40000,
                             oracle_cmp=cache_trace_oracle,
                             nontrivial=lambda f, impl: impl.count(b";") >= 2)],
                tie="Model/Cache.v (step: File / Load / LoadE / WriteE / Action.Cache) <-> real Action.Cache at five call sites on a scratch XDG_CACHE_HOME",
                rule="cases = histories of 3-12 operations: cached invocations at 3 call sites with 0-2 keys (values incl. the separator bytes, keys "
                     "failing, keys changing as a side effect), timeouts 1h/2h/24h/negative, results with and without messages; clock advanced by "
                     "back-dating every cache file (never within a second of a timeout boundary); foreign content planted under existing names; "
                     "entries removed.  Every invocation's (real?, completion) is compared with the model; non-trivial = at least two invocations"),
    "C15": dict(streams=[dict(harness="crash", model="crash", oracle=None, quick=2600, thorough=8000,
                             project=lambda f, x: x[:1],
                             oracle_py=lambda f, impl: [] if impl and impl[0] in (b"recomputed", b"new", b"old") else
                                 [("partial-served", (impl[1] if len(impl) > 1 else b"")[:60])],
                             nontrivial=lambda f, impl: True)],
                tie="Model/FsCrash.v under the protocol read off Gen/Sites.v (file operations of internal/cache, pkg/cache) <-> real writer processes cut by RLIMIT_FSIZE and fresh reader processes",
                rule="cases = ENUMERATED: flavour (Action export JSON, raw bytes) x entry size (1, 20, 150 bytes of payload) x previous complete entry "
                     "(absent / present, expired) x interruption (write error with SIGXFSZ ignored / process killed) x every cut offset k = 0..len+1 "
                     "(every third offset for the largest size in the quick tier); each case runs a writer process under RLIMIT_FSIZE = k and a fresh "
                     "reader process; exhaustive over that space"),
    "C08": dict(streams=[dict(harness="history", model="history", oracle=None, quick=4000, thorough=150000,
                             project=lambda f, x: _cut(x), oracle_cmp=history_oracle,
                             nontrivial=lambda f, impl: impl.count(b";") >= 6),
                         dict(harness="historyx", model=None, oracle=None, quick=400, thorough=20000,
                              oracle_py=lambda f, impl: history_oracle(f, impl), nontrivial=lambda f, impl: impl.count(b";") >= 6)],
                tie="Model/Action.v pure semantics (invoke . denote, history-independent) <-> real Actions built once and invoked repeatedly",
                rule="cases = a pool of 3-6 Actions built ONCE (1-2 static Actions shared by reference, expressions over them and over earlier pool "
                     "entries: Prefix/Suffix/Style/Tag/Suppress/NoSpace/Usage/Filter/MultiParts/UniqueList/Batch/partition/ActionMessage with arguments/"
                     "ActionMultiParts) and a history of 3-9 invocations (pool index, Context) with repeats and interleavings; every step is compared "
                     "with the pure model and with the first invocation of a freshly rebuilt pool; non-trivial = at least 3 steps"),
    "C09": dict(streams=[dict(harness="batch", model="algebra", oracle="algebra_oracle", quick=3000, thorough=120000),
                         dict(harness="batchrace", model="algebra", oracle=None, race=True, quick=600, thorough=20000)],
                tie="Model/Action.v Batch = merge of the members' sequential completions <-> real Batch under goroutines (GOMAXPROCS 1/2/16, jitter) and under the race detector",
                rule="cases = Batches of 2-5 members: jittered expressions (runtime.Gosched / sleeps inside callbacks), the SAME Action value as several "
                     "members, nested batches, members that Setenv and read the environment, shared static Actions; stream `batch` compares the merged "
                     "completion with the sequential merge (model and reference algebra) under GOMAXPROCS 1, 2, 16; stream `batchrace` runs the same "
                     "kind of workload in a -race build and fails on any report of the Go race detector"),
    "C19": dict(streams=[dict(harness="timeout", model="timeout", oracle=None, quick=96, thorough=3000,
                             project=lambda f, x: [b"-"], oracle_cmp=timeout_oracle, nontrivial=lambda f, impl: len(impl) >= 3),
                         dict(harness="timeoutrace", model="timeout", oracle=None, race=True, quick=48, thorough=1000,
                             project=lambda f, x: [b"-"], oracle_cmp=timeout_oracle, nontrivial=lambda f, impl: len(impl) >= 3)],
                tie="Model/Timeout.v (answers relation with a 40 ms margin around the boundary) and the goroutine/channel inventory of Action.Timeout (Gen/Sites.v) <-> real Timeout around callbacks of arranged duration",
                rule="cases = Timeout(d in {60,90,120} ms, alternative) around a callback that returns instantly, at d/3, d-55, d+60, d+150 ms or never; "
                     "optionally nested in a second Timeout (60/120/200 ms) and inside a Batch; the SAME wrapped Action is invoked 1-3 times in a "
                     "row with different durations; outcome (inner with its description/usage/no-space, alt, alt2) and elapsed time are compared "
                     "with the outcomes the timed model allows; second stream: the same under the race detector"),
    "C17": dict(streams=[dict(harness="lex", model="lex", oracle=None, quick=6000, thorough=400000),
                         dict(harness="split", model="split", oracle=None, quick=4000, thorough=200000,
                              project=split_project, oracle_cmp=split_oracle)],
                tie="Model/Shlex.v <-> real carapace-shlex Split (every token field); Model/Split.v <-> real Action.Split / SplitP around a marker action",
                rule="lex: texts of up to 9 atoms over letters, non-ASCII, blanks, both quotes, backslash, | > ; # = : & < ( digits, LF, with and without "
                     "COMP_WORDBREAKS; split: embedded lines of 0-2 earlier words (plain, quoted, escaped, non-ASCII, flags; with pipeline / redirect "
                     "operators for SplitP) and a last word in every style (empty, plain, open double / single quote, escaped blank, non-ASCII), "
                     "candidate values over word characters and blanks, no-space sets; non-trivial = the wrapped action was reached with candidates"),
    "C16": dict(streams=[dict(harness="path", model="path", oracle=None, quick=21000, thorough=120000),
                         dict(harness="files", model="files", oracle=None, quick=900, thorough=40000,
                              project=lambda f, x: _cut(x), oracle_cmp=files_oracle, nontrivial=lambda f, impl: len(impl) > 5)],
                tie="Model/Files.v clean/dir/base/abs <-> path/filepath (exhaustive over short paths); action_files on the abstract tree <-> real ActionFiles / ActionDirectories on the materialised tree",
                rule="path: ALL paths of length <= 6 over {a . / ~ b} (19531) plus random longer ones; files: generated trees (4-13 entries: nested "
                     "directories, files with blanks / quotes / non-ASCII / leading dots / several suffixes, symbolic links to directories, files and "
                     "nowhere, absolute and relative) materialised under a scratch directory; Context.Dir = a directory of the tree (never the process "
                     "working directory); typed path = directory part (empty, ./, ../, absolute, ~/, one or two segments, ./seg/) + partial last segment; "
                     "ActionFiles with suffix filters or ActionDirectories; non-trivial = at least one candidate"),
}

# further streams of properties whose main check lives in another module (orch/fmt.py merges them into its run)
EXTRA = {
    "C06": dict(streams=[dict(harness="suppress", model="algebra", oracle="algebra_oracle", quick=3000, thorough=120000)],
                tie="Model/Action.v msgs_suppress (match relation of Run/RunAlgebra.v) <-> real Action.Suppress",
                rule="suppress stream: Suppress with 1-4 expressions (literal, or carrying an ungrouped (?i) flag, in any position) over a "
                     "Batch of 1-4 message-carrying actions whose messages differ from the expressions by case only, contain `|` or `(`, or "
                     "match none; the surviving messages, values and meta are compared with the model and judged by the reference algebra"),
}

TRUSTED = ["Go harness stream(s) and extracted oracle of this property (see rule)"]
ASSUMPTIONS = {}


def nontrivial_default(fields, impl):
    return len(impl) > 3


def explore(pid, ctx, cfg=None):
    cfg = cfg or PROPS[pid]
    tier, seed = ctx["tier"], ctx["seed"]
    t0 = time.time()
    failures, tie_broken, errors = [], [], []
    notes_all, total, distinct, equal = {}, 0, set(), 0
    samples = []
    per_stream = {}
    for st in cfg["streams"]:
        count = ctx.get("count") or st[tier if tier in st else "quick"]
        scratch = os.path.join(lib.WORK, pid + "-" + st["harness"])
        binary = "harness"
        if st.get("race"):
            ok, log = lib.ensure_race_harness()
            if not ok:
                errors.append("race build failed: " + log[-800:])
                continue
            binary = "harness-race"
        cases, notes, errs = lib.run_harness(st["harness"], seed, count, tier, scratch, extra_env=st.get("env"), binary=binary)
        stderr = notes.pop("_stderr", "")
        if st.get("race") and "WARNING: DATA RACE" in stderr:
            rep = stderr[stderr.index("WARNING: DATA RACE"):]
            rep = rep[:rep.index("==================", 20)] if "==================" in rep[20:] else rep[:3000]
            frames = [l.strip() for l in rep.split("\n") if l.strip().startswith("github.com/carapace-sh/carapace")][:6]
            failures.append(dict(index=-1, kind="data-race", shell=st["harness"], detail=(" | ".join(frames) or rep[:300]).encode(),
                                 case=[str(seed).encode(), str(count).encode()], impl=[rep[:4000].encode()]))
        cases = load_corpus(pid, st) + cases
        errors += errs
        for k, v in notes.items():
            if k != "_stderr":
                notes_all[st["harness"] + ":" + k] = v
        model_out = lib.run_model([(st["model"], f) for _, f, _ in cases]) if st.get("model") else [None] * len(cases)
        if st.get("oracle"):
            oracle_out = lib.run_model([(st["oracle"], f + [b"|"] + impl) for _, f, impl in cases])
        elif st.get("oracle_py"):
            oracle_out = [[b"OK"] + [k.encode() + b":" + d for k, d in st["oracle_py"](f, impl)] for _, f, impl in cases]
        else:
            oracle_out = [[b"OK"]] * len(cases)
        nt = st.get("nontrivial", nontrivial_default)
        proj = st.get("project", lambda f, x: x)
        for i, ((_, fields, impl), mo, oo) in enumerate(zip(cases, model_out, oracle_out)):
            total += 1
            if nt(fields, impl):
                distinct.add(hash(tuple(fields)))
            if st.get("model"):
                if mo is not None and proj(fields, mo) == proj(fields, impl):
                    equal += 1
                else:
                    tie_broken.append(dict(index=i, stream=st["harness"], case=fields, impl=impl, model=mo))
            if st.get("oracle_cmp") and mo is not None:
                oo = [b"OK"] + [k.encode() + b":" + d for k, d in st["oracle_cmp"](fields, impl, mo)]
            if oo is None or not oo or oo[0] != b"OK":
                failures.append(dict(index=i, kind="oracle-error", shell=st["harness"], detail=b"", case=fields, impl=impl))
                continue
            for t in oo[1:]:
                k, _, d = t.partition(b":")
                failures.append(dict(index=i, kind=k.decode(), shell=st["harness"], detail=d, case=fields, impl=impl))
        per_stream[st["harness"]] = len(cases)
        step = max(1, len(cases) // 4)
        samples += [summary(st["harness"], f, impl) for _, f, impl in cases[::step]][:3]
        try:
            import shutil
            shutil.rmtree(scratch, ignore_errors=True)
        except Exception:
            pass
    cov = dict(
        evaluations=total, distinct_nontrivial=len(distinct), rule=cfg["rule"],
        traces_validated_against_impl=total, model_equal_impl=equal, per_stream=per_stream,
        generator_distribution={k: v for k, v in sorted(notes_all.items())[:60]},
        harness_errors=errors[:5], samples=samples[:6], explore_wall_s=round(time.time() - t0, 1),
    )
    return dict(failures=failures, tie_broken=tie_broken, coverage=cov, errors=errors)


def summary(stream, fields, impl):
    return dict(stream=stream, case=[lib.b2s(x) for x in fields[:40]], impl=[lib.b2s(x) for x in impl[:40]])


def case_summary(fields, impl):
    return dict(case=[lib.b2s(x) for x in fields], impl=[lib.b2s(x) for x in impl] if isinstance(impl, list) else lib.b2s(impl))


def load_corpus(pid, st):
    d = os.path.join(lib.ROOT, "corpus", pid)
    out = []
    if not os.path.isdir(d):
        return out
    for name in sorted(os.listdir(d)):
        if not name.endswith(".json"):
            continue
        c = json.load(open(os.path.join(d, name)))
        if c.get("stream") != st["harness"]:
            continue
        fields = [bytes.fromhex(x) for x in c["case_hex"]]
        res = rerun(st, fields)
        if res is not None:
            out.append((st["harness"], fields, res))
    return out


def rerun(st, fields):
    """run one stored case through the real implementation again"""
    scratch = os.path.join(lib.WORK, "replay-" + st["harness"])
    os.makedirs(scratch + "/home", exist_ok=True)
    line = st["harness"] + "".join("\t" + f.hex() for f in fields) + "\t|\n"
    env = dict(PATH=os.environ.get("PATH", ""), HOME=scratch + "/home", XDG_CONFIG_HOME=scratch + "/config",
               XDG_CACHE_HOME=scratch + "/cache", LC_ALL="C", VERIF_SCRATCH=scratch)
    env.update(lib.GOENV)
    import subprocess
    r = subprocess.run([os.path.join(lib.BIN, "harness"), st["harness"] + "-one"], input=line.encode(), capture_output=True, env=env)
    for l in r.stdout.decode().split("\n"):
        parts = l.split("\t")
        if parts[0] == st["harness"] and "|" in parts:
            k = parts.index("|")
            return [bytes.fromhex(x) for x in parts[k + 1:]]
    return None


def replay(pid, payload, ctx, cfg=None):
    cfg = cfg or PROPS[pid]
    fields = [bytes.fromhex(x) for x in payload["case_hex"]]
    stream = payload.get("oracle_failure", {}).get("shell") or cfg["streams"][0]["harness"]
    st = next((s for s in cfg["streams"] if s["harness"] == stream), cfg["streams"][0])
    res = rerun(st, fields)
    if res is None:
        return [dict(kind="replay-error", shell=stream, detail=b"", case=fields, impl=[])], None
    if st.get("oracle_cmp"):
        mo = lib.run_model([(st["model"], fields)])[0]
        oo = [b"OK"] + [k.encode() + b":" + d for k, d in st["oracle_cmp"](fields, res, mo)] if mo is not None else None
    elif st.get("oracle"):
        oo = lib.run_model([(st["oracle"], fields + [b"|"] + res)])[0]
    else:
        oo = [b"OK"] + [k.encode() + b":" + d for k, d in st["oracle_py"](fields, res)] if st.get("oracle_py") else [b"OK"]
    fails = []
    if oo is None or not oo or oo[0] != b"OK":
        fails.append(dict(kind="oracle-error", shell=stream, detail=b"", case=fields, impl=res))
    else:
        for t in oo[1:]:
            k, _, d = t.partition(b":")
            fails.append(dict(kind=k.decode(), shell=stream, detail=d, case=fields, impl=res))
    return fails, res


# ------------------------------------------------------------------ known-finding predicates
def _mp_dividers(f):
    c = f["case"]
    n = int(c[2])
    return c[3:3 + n]


def pred_mp_empty_divider(f):
    return b"" in _mp_dividers(f)


def pred_mp_overlapping_dividers(f):
    ds = _mp_dividers(f)
    return any(i != j and a and a in b for i, a in enumerate(ds) for j, b in enumerate(ds))


def pred_mp_ci_letter_divider(f):
    import re
    return f["case"][0] == b"1" and any(re.search(rb"[A-Za-z]", d) for d in _mp_dividers(f))


def pred_never(f):
    """findings documented from probes that no stream of this check generates"""
    return False


def pred_split_nonascii_text(f):
    return any(b >= 128 for b in f["case"][2])


def pred_split_redirect_wordbreak(f):
    import re
    # SplitP; a redirection operator whose target (possibly empty, possibly after blanks) contains or is adjoined by
    # another wordbreak character or a comment: FilterRedirects and Words() then cut the line differently
    return b"P" in f["case"][0] and re.search(rb"[<>][^\s]*\s*\S*[=:(@<>;|&#\"']", f["case"][2]) is not None


def pred_files_seg_dotdot(f):
    import re
    return re.search(rb"[^/.][^/]*/\.\./", f["case"][2]) is not None or re.search(rb"\.[^/.][^/]*/\.\./", f["case"][2]) is not None
