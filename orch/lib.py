"""Shared machinery of ./check: build (translate, prove, extract), harness and runner
invocation, known-finding matching, replay and evidence files."""
import fcntl, hashlib, json, os, re, shutil, subprocess, sys, time

ROOT = os.path.dirname(os.path.dirname(os.path.abspath(__file__)))
REPO = os.environ.get("VERIF_REPO", "/repo")
COQ = os.path.join(ROOT, "coq")
BIN = os.path.join(ROOT, "bin")
WORK = os.path.join(ROOT, ".work")

GOENV = dict(os.environ, GOFLAGS="-mod=mod", GOPROXY="off", GOSUMDB="off", GOTOOLCHAIN="local", GOWORK="off",
             CGO_ENABLED=os.environ.get("CGO_ENABLED", "0"))

TRUSTED_BASE = [
    "Coq 8.16.1 kernel (coqc; vm_compute used for finite table obligations; native_compute not used; no guard/positivity/universe switches)",
    "axioms: none declared; Print Assumptions of every Props theorem is recorded in this file (expected: Closed under the global context)",
    "translator tools/gotables (go/parser, go/ast): replacer tables, character sets, case sets regenerated from /repo on every run",
    "extraction: Require Import ExtrOcamlBasic only (bool, option, unit, list, prod, sumbool, sumor to OCaml natives; andb/orb inlined); no Extract Constant of our own; ascii/nat/N/Z stay inductives",
    "OCaml 4.13.1 driver runner/driver.ml (hex line protocol)",
    "Go harness (out-of-tree module importing carapace internals), python orchestrator (generation glue, diff, known-finding matching)",
]


def log(*a):
    print(*a, file=sys.stderr, flush=True)


def sh(cmd, **kw):
    kw.setdefault("capture_output", True)
    kw.setdefault("text", True)
    return subprocess.run(cmd, **kw)


def repo_fingerprint():
    h = hashlib.sha256()
    for base, dirs, files in os.walk(REPO):
        dirs[:] = sorted(d for d in dirs if d not in (".git", "docs"))
        for f in sorted(files):
            if f.endswith(".go") and not f.endswith("_test.go") or f in ("go.mod", "go.work"):
                p = os.path.join(base, f)
                h.update(p.encode())
                with open(p, "rb") as fh:
                    h.update(fh.read())
    return h.hexdigest()[:16]


def repo_status():
    r = sh(["git", "-C", REPO, "status", "--porcelain"])
    return r.stdout


class Build:
    """Result of the build phase."""
    def __init__(self):
        self.ok = True
        self.coq_log = ""
        self.failed_files = []     # .v files whose compilation failed
        self.harness_ok = True
        self.harness_log = ""
        self.translator_notes = []
        self.tables_hash = ""

    def vo_ok(self, vfile):
        """True when coq/<vfile>o is up to date after this build."""
        r = sh(["make", "-q", "-C", COQ, vfile + "o"])
        return r.returncode == 0


def build(tier="quick"):
    os.makedirs(BIN, exist_ok=True)
    os.makedirs(WORK, exist_ok=True)
    b = Build()
    lock = open(os.path.join(ROOT, ".build.lock"), "w")
    fcntl.flock(lock, fcntl.LOCK_EX)
    try:
        # 1. translator
        if not os.path.exists(os.path.join(BIN, "gotables")) or newer(os.path.join(ROOT, "tools/gotables/main.go"), os.path.join(BIN, "gotables")):
            r = sh(["go", "build", "-o", os.path.join(BIN, "gotables"), "./gotables"], cwd=os.path.join(ROOT, "tools"), env=GOENV)
            if r.returncode != 0:
                b.ok = False
                b.coq_log += "gotables build failed:\n" + r.stderr
                return b
        r = sh([os.path.join(BIN, "gotables"), REPO, os.path.join(COQ, "Gen/Tables.v")])
        if r.returncode != 0:
            b.ok = False
            b.coq_log += "gotables failed:\n" + r.stderr
        tv = open(os.path.join(COQ, "Gen/Tables.v")).read()
        b.tables_hash = hashlib.sha256(tv.encode()).hexdigest()[:16]
        b.translator_notes = re.findall(r"\(\* (UNTRANSLATED[^*]*|UNPARSED[^*]*)\*\)", tv)
        # 1b. site inventories
        if not os.path.exists(os.path.join(BIN, "goaudit")) or newer(os.path.join(ROOT, "tools/goaudit/main.go"), os.path.join(BIN, "goaudit")):
            r = sh(["go", "build", "-o", os.path.join(BIN, "goaudit"), "./goaudit"], cwd=os.path.join(ROOT, "tools"), env=GOENV)
            if r.returncode != 0:
                b.ok = False
                b.coq_log += "goaudit build failed:\n" + r.stderr
                return b
        r = sh([os.path.join(BIN, "goaudit"), REPO, os.path.join(COQ, "Gen/Sites.v")])
        if r.returncode != 0:
            b.ok = False
            b.coq_log += "goaudit failed:\n" + r.stderr
        for extra in EXTRA_TRANSLATORS:
            extra(b)
        # 2. proofs (full .vo build, keep going so that independent properties still check)
        if not os.path.exists(os.path.join(COQ, "Makefile")) or newer(os.path.join(COQ, "_CoqProject"), os.path.join(COQ, "Makefile")):
            sh(["coq_makefile", "-f", "_CoqProject", "-o", "Makefile"], cwd=COQ)
        r = sh(["timeout", "3000", "make", "-k", "-j16", "-C", COQ], env=dict(os.environ, TIMED=""))
        b.coq_log += r.stdout[-20000:] + r.stderr[-20000:]
        if r.returncode != 0:
            b.ok = False
            b.failed_files = sorted(set(re.findall(r'File "\./([^"]+\.v)"', r.stdout + r.stderr)))
        # 3. runner from the extracted model
        ml, mli = os.path.join(COQ, "model.ml"), os.path.join(COQ, "model.mli")
        runner = os.path.join(BIN, "runner")
        if os.path.exists(ml) and (not os.path.exists(runner) or newer(ml, runner) or newer(os.path.join(ROOT, "runner/driver.ml"), runner)):
            rd = os.path.join(ROOT, "runner")
            shutil.copy(ml, rd)
            shutil.copy(mli, rd)
            r = sh(["ocamlfind", "ocamlopt", "-O2", "-w", "-a", "-package", "str", "model.mli", "model.ml", "driver.ml", "-o", runner], cwd=rd)
            if r.returncode != 0:
                b.ok = False
                b.coq_log += "runner build failed:\n" + r.stderr[-3000:]
        # 4. harness against the current tree
        hd = os.path.join(ROOT, "harness")
        sums = ""
        for p in (os.path.join(REPO, "go.sum"), os.path.join(REPO, "example-nonposix/go.sum")):
            if os.path.exists(p):
                sums += open(p).read()
        want = "".join(sorted(set(l + "\n" for l in sums.splitlines() if l.strip())))
        gs = os.path.join(hd, "go.sum")
        if not os.path.exists(gs) or open(gs).read() != want:
            open(gs, "w").write(want)
        r = sh(["go", "build", "-o", os.path.join(BIN, "harness"), "."], cwd=hd, env=GOENV)
        b.harness_log = r.stderr
        if r.returncode != 0:
            b.harness_ok = False
    finally:
        fcntl.flock(lock, fcntl.LOCK_UN)
        lock.close()
    return b


EXTRA_TRANSLATORS = []


def newer(a, b):
    try:
        return os.path.getmtime(a) > os.path.getmtime(b)
    except OSError:
        return True


# ------------------------------------------------------------------ harness / runner

def unhex_fields(fs):
    return [bytes.fromhex(f) for f in fs]


def ensure_race_harness():
    """the same harness built with the Go race detector (bin/harness-race); rebuilt when a source is newer"""
    hd = os.path.join(ROOT, "harness")
    out = os.path.join(BIN, "harness-race")
    srcs = [os.path.join(hd, f) for f in os.listdir(hd) if f.endswith(".go")]
    stamp = os.path.join(BIN, ".race-fingerprint")
    fp = repo_fingerprint()
    if os.path.exists(out) and all(not newer(s, out) for s in srcs) and os.path.exists(stamp) and open(stamp).read() == fp:
        return True, ""
    r = sh(["go", "build", "-race", "-o", out, "."], cwd=hd, env=dict(GOENV, CGO_ENABLED="1"))
    if r.returncode == 0:
        open(stamp, "w").write(fp)
    return r.returncode == 0, r.stderr


def run_harness(prop, seed, count, tier, scratch, extra_env=None, binary="harness"):
    """returns (cases, notes, errors); cases = [(runner, case_fields, impl_fields)]"""
    os.makedirs(scratch, exist_ok=True)
    env = dict(GOENV, VERIF_SCRATCH=scratch)
    if extra_env:
        env.update(extra_env)
    # a completion that never returns (a deadlock in the code under test) must end the run, not hang it
    limit = int(os.environ.get("VERIF_HARNESS_TIMEOUT", "600" if tier == "quick" else "14400"))
    import signal, types
    p = subprocess.Popen([os.path.join(BIN, binary), prop, str(seed), str(count), tier], stdout=subprocess.PIPE, stderr=subprocess.PIPE,
                         env=env, start_new_session=True)
    timed_out = False
    try:
        so, se = p.communicate(timeout=limit)
    except subprocess.TimeoutExpired:
        timed_out = True
        try:
            os.killpg(p.pid, signal.SIGKILL)
        except OSError:
            pass
        so, se = p.communicate()
    r = types.SimpleNamespace(returncode=p.returncode, stdout=so, stderr=se)
    cases, notes, errors = [], {}, []
    if timed_out:
        errors.append("harness stream %s did not finish within %d s (killed): some invocation of the code under test never returned; "
                      "%d bytes of cases were produced before" % (prop, limit, len(so)))
    elif r.returncode != 0:
        errors.append("harness exit %d: %s" % (r.returncode, r.stderr.decode(errors="replace")[-2000:]))
    for line in r.stdout.decode("ascii", errors="replace").split("\n"):
        if not line:
            continue
        parts = line.split("\t")
        if parts[0] == "#":
            try:
                notes[parts[1]] = notes.get(parts[1], 0) + int(parts[2])
            except ValueError:
                notes[parts[1]] = parts[2]
        elif parts[0] == "!":
            errors.append("\t".join(parts[1:]))
        else:
            try:
                k = parts.index("|")
                cases.append((parts[0], unhex_fields(parts[1:k]), unhex_fields(parts[k + 1:])))
            except ValueError:
                errors.append("malformed harness line: " + line[:200])
    notes["_stderr"] = r.stderr.decode(errors="replace") if r.stderr else ""
    if r.stderr:
        tail = r.stderr.decode(errors="replace")
        if "panic:" in tail or "fatal error" in tail:
            errors.append("harness stderr: " + tail[-3000:])
    return cases, notes, errors


def run_model(queries):
    """queries: [(runner_name, [bytes fields])] -> [[bytes fields]] (None on runner failure)"""
    if not queries:
        return []
    inp = "\n".join(name + "".join("\t" + f.hex() for f in fields) for name, fields in queries) + "\n"
    r = subprocess.run(["bash", "-c", "ulimit -s unlimited 2>/dev/null; exec " + os.path.join(BIN, "runner")],
                       input=inp.encode(), capture_output=True)
    outs = r.stdout.decode().split("\n")
    res = []
    for i in range(len(queries)):
        if i >= len(outs) or outs[i].startswith("!"):
            res.append(None)
            continue
        try:
            res.append([bytes.fromhex(f) for f in outs[i].split("\t")] if outs[i] != "" else [b""])
        except ValueError:
            res.append(None)
    return res


# ------------------------------------------------------------------ props files

def props_info(pid):
    """theorem names of Props/<pid>.v and their Print Assumptions output (recompiles that one file)."""
    vf = os.path.join(COQ, "Props", pid + ".v")
    if not os.path.exists(vf):
        return [], {}, "missing"
    src = open(vf).read()
    names = re.findall(r"^(?:Theorem|Corollary)\s+(\w+)", src, re.M)
    r = sh(["timeout", "900", "coqc", "-Q", ".", "CV", "Props/" + pid + ".v"], cwd=COQ)
    out = r.stdout
    assumptions = {}
    cur = None
    # Print Assumptions prints "Closed under the global context" or "Axioms:\n name : type ..."
    blocks = re.split(r"\n(?=Closed under the global context|Axioms:)", "\n" + out)
    printed = [b.strip() for b in blocks if b.strip()]
    pa = re.findall(r"^Print Assumptions\s+(\w+)", src, re.M)
    for n, blk in zip(pa, printed):
        assumptions[n] = blk
    status = "ok" if r.returncode == 0 else "failed: " + (r.stderr[-1500:])
    return names, assumptions, status


def hygiene():
    """no Admitted/admit/Axiom/Parameter/... anywhere in the development"""
    pat = re.compile(r"\b(Admitted|admit|Axiom|Axioms|Parameter|Parameters|Conjecture|Hypothesis|Variable|Variables|Hypotheses|bypass_check|Unset Guard|Admit Obligations)\b")
    bad = []
    for base, _, files in os.walk(COQ):
        for f in files:
            if not f.endswith(".v"):
                continue
            p = os.path.join(base, f)
            depth = 0
            for ln, line in enumerate(open(p), 1):
                s = re.sub(r"\(\*.*?\*\)", "", line)
                if re.match(r"\s*Section\b", s):
                    depth += 1
                if re.match(r"\s*End\b", s) and depth > 0:
                    depth -= 1
                m = pat.search(s)
                if m:
                    w = m.group(1)
                    if w in ("Hypothesis", "Variable", "Variables", "Hypotheses") and depth > 0:
                        continue
                    if "(*" in line and line.index("(*") < line.find(w):
                        continue
                    bad.append("%s:%d: %s" % (os.path.relpath(p, ROOT), ln, line.strip()))
    return bad


# ------------------------------------------------------------------ findings, replay, evidence

def load_known():
    p = os.path.join(ROOT, "known_findings.json")
    if not os.path.exists(p):
        return []
    return json.load(open(p))


def b2s(b):
    """bytes -> printable JSON-safe text (latin-1 escapes kept visible)"""
    if isinstance(b, (list, tuple)):
        return [b2s(x) for x in b]
    if isinstance(b, bytes):
        try:
            s = b.decode("utf-8")
            if all(c.isprintable() for c in s):
                return s
        except UnicodeDecodeError:
            pass
        return "hex:" + b.hex()
    return b


def write_replay(pid, n, payload):
    d = os.path.join(ROOT, "replay")
    os.makedirs(d, exist_ok=True)
    path = os.path.join(d, "%s-%d.json" % (pid, n))
    json.dump(payload, open(path, "w"), indent=1, default=b2s)
    return path


def write_evidence(pid, tier, seed, coverage, wall, violations, assumptions=None):
    d = os.path.join(ROOT, "evidence")
    os.makedirs(d, exist_ok=True)
    level = "proof"
    try:
        for c in json.load(open(os.path.join(ROOT, "MANIFEST.json")))["checks"]:
            if c["property_id"] == pid:
                level = c["level_claimed"]["category"]
    except Exception:
        pass
    ev = {
        "property_id": pid, "tier": tier, "seed": seed, "level": level,
        "coverage": coverage, "wall_s": round(wall, 2), "violations": violations,
        "assumptions": assumptions or [],
    }
    json.dump(ev, open(os.path.join(d, pid + ".json"), "w"), indent=1, default=b2s)
