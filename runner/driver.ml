(* Generic driver around the extracted model: one case per line,
   <runner-name>\t<hex field>\t...   ->   <hex field>\t...
   Strings are converted to and from the extracted [ascii list]. *)
let ascii_of_char c =
  let n = Char.code c in
  Model.Ascii (n land 1 <> 0, n land 2 <> 0, n land 4 <> 0, n land 8 <> 0,
               n land 16 <> 0, n land 32 <> 0, n land 64 <> 0, n land 128 <> 0)

let char_of_ascii = function
  | Model.Ascii (b0, b1, b2, b3, b4, b5, b6, b7) ->
    let v b k = if b then k else 0 in
    Char.chr (v b0 1 + v b1 2 + v b2 4 + v b3 8 + v b4 16 + v b5 32 + v b6 64 + v b7 128)

let str_of_string s =
  let rec go i acc = if i < 0 then acc else go (i - 1) (ascii_of_char s.[i] :: acc) in
  go (String.length s - 1) []

let string_of_str l =
  let b = Buffer.create 64 in
  List.iter (fun a -> Buffer.add_char b (char_of_ascii a)) l;
  Buffer.contents b

let hexval c = match c with
  | '0'..'9' -> Char.code c - 48
  | 'a'..'f' -> Char.code c - 87
  | 'A'..'F' -> Char.code c - 55
  | _ -> failwith "bad hex"

let unhex s =
  let n = String.length s / 2 in
  String.init n (fun i -> Char.chr (hexval s.[2*i] * 16 + hexval s.[2*i+1]))

let hex s =
  let b = Buffer.create (2 * String.length s) in
  String.iter (fun c -> Buffer.add_string b (Printf.sprintf "%02x" (Char.code c))) s;
  Buffer.contents b

let () =
  try
    while true do
      let line = input_line stdin in
      match String.split_on_char '\t' line with
      | [] -> print_newline ()
      | name :: fields ->
        let res =
          try
            let r = Model.dispatch (str_of_string name) (List.map (fun f -> str_of_string (unhex f)) fields) in
            String.concat "\t" (List.map (fun f -> hex (string_of_str f)) r)
          with Stack_overflow -> "!stackoverflow"
        in
        print_string res; print_newline ()
    done
  with End_of_file -> ()
