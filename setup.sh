#!/bin/bash
# one-time build after a fresh restore (offline): translator, full Coq build, runner, harness
cd "$(dirname "$0")"
set -e
export GOFLAGS=-mod=mod GOPROXY=off GOSUMDB=off GOTOOLCHAIN=local GOWORK=off
python3 - <<'PY'
import sys
sys.path.insert(0, "orch")
import lib
b = lib.build("quick")
print("coq build ok:", b.ok, "harness ok:", b.harness_ok)
if not b.ok:
    print(b.coq_log[-3000:])
sys.exit(0 if (b.ok and b.harness_ok) else 1)
PY
