#!/usr/bin/env python3
"""tools/coqstr.py — print Coq byte-list literals `B [...]` for the given strings (one per line on stdin: text<TAB>comment)"""
import sys
for line in sys.stdin:
    line = line.rstrip("\n")
    if not line:
        continue
    text, _, comment = line.partition("\t")
    print("  B [" + ";".join(str(b) for b in text.encode()) + "];" + ("  (* " + text + (" — " + comment if comment else "") + " *)"))
