#!/usr/bin/env python3
"""tools/design_tables.py — refresh the generated tables of DESIGN.md section 0 (fix commits, seeded changes,
counts) from known_findings.json and seeded/*/meta.json."""
import json, os, re
root = "/verif"
d = open(root + "/DESIGN.md").read()
k = json.load(open(root + "/known_findings.json"))
fx = [e for e in k if e["status"].startswith("fixed")]
op = [e for e in k if e["status"].startswith("open")]
rows = []
for e in fx:
    m = re.match(r"fixed: property=(\w+) (\w+) (.*)", e["status"], re.S)
    rows.append("| %s | %s | %s |" % (m.group(1), m.group(2), m.group(3).replace("\n", " ").replace("|", "\\|")[:330]))
d = re.sub(r"(\| property \| commit \| what failed \|\n\|---\|---\|---\|\n)(?:\|.*\n)*", lambda m: m.group(1) + "\n".join(rows) + "\n", d)
rows = []
for s in sorted(os.listdir(root + "/seeded")):
    mp = root + "/seeded/%s/meta.json" % s
    if not os.path.exists(mp):
        continue
    m = json.load(open(mp))
    rows.append("| %s | %s | %s | %s |" % (s, m.get("property", s[:3]), m.get("summary", "").replace("\n", " ").replace("|", "\\|")[:150],
                                        m.get("status_on_current_tree", "?").replace("|", "\\|")[:200]))
d = re.sub(r"(\| seed \| property \| change \(abridged\) \| verdict on the current tree \|\n\|---\|---\|---\|---\|\n)(?:\|.*\n)*", lambda m: m.group(1) + "\n".join(rows) + "\n", d)
# per-property counts and stream names in table 0.2
import sys
sys.path.insert(0, root + "/orch")
import generic
for i in range(1, 21):
    pid = "C%02d" % i
    nfx = len([e for e in fx if e["status"].split()[1] == "property=" + pid])
    nop = len([e for e in op if e["property"] == pid])
    names = re.findall(r"^(?:Theorem|Corollary)\s+(\w+)", open(root + "/coq/Props/%s.v" % pid).read(), re.M)
    st = ", ".join(s["harness"] + (" (race detector)" if s.get("race") else "") for s in generic.PROPS.get(pid, {}).get("streams", [])) or "value (fmt.py, per shell)"
    d = re.sub(r"(\| %s \| )\d+( \| )[^|]*(\| .*\| )\d+ fixed, \d+ open \|" % pid,
               lambda m: m.group(1) + str(len(names)) + m.group(2) + st + " " + m.group(3) + "%d fixed, %d open |" % (nfx, nop), d)
d = re.sub(r"### 0\.4 Open findings \(recorded, not repaired\) — \d+", "### 0.4 Open findings (recorded, not repaired) — %d" % len(op), d)
d = re.sub(r"undoes it\.  \w+ rounds, \d+ changes:", "undoes it.  Four rounds, %d changes:" % len(rows), d)
open(root + "/DESIGN.md", "w").write(d)
print(len(fx), "fixes,", len(op), "open,", len(rows), "seeds")
