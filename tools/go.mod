module verif/tools

go 1.23
