// goaudit — site inventories of carapace's Go source, emitted as Gallina lists.
//
// usage: goaudit <repo> <out.v>
//
// Inventories (by file, enclosing function and normalised source text, never by line):
//   map_range_sites      every `range` over a map-typed expression (C10)
//   captured_write_sites every assignment inside a function literal to a variable declared
//                        outside it, incl. writes through fields / indexes of it (C08, C09)
//   go_stmt_sites        every `go` statement, channel make/send/receive, select (C09, C19)
//   file_write_sites     os.WriteFile / Rename / Create / OpenFile / Remove calls (C15)
// Only go/parser, go/ast, go/token, go/printer are used (no type checker): map-typed names
// are found syntactically (declared `map[..]..`, `make(map..)`, map literals, struct fields
// and named types whose underlying type is a map).
package main

import (
	"bytes"
	"fmt"
	"go/ast"
	"go/parser"
	"go/printer"
	"go/token"
	"os"
	"path/filepath"
	"sort"
	"strconv"
	"strings"
)

var dirs = []string{
	".", "internal/common", "internal/shell", "internal/shell/zsh", "internal/shell/bash", "internal/shell/nushell", "internal/shell/cmd_clink", "internal/export",
	"internal/cache", "pkg/cache", "pkg/cache/key", "pkg/match", "internal/pflagfork", "internal/env", "internal/config",
}

// the files in which the completion entry point does index arithmetic on user text (C18)
var sliceFiles = map[string]bool{
	"complete.go": true, "command.go": true, "traverse.go": true, "internal/shell/bash/patch.go": true,
	"internal/shell/cmd_clink/patch.go": true, "internal/shell/nushell/patch.go": true,
	"internal/shell/zsh/namedDirectory.go": true, "pkg/match/match.go": true, "internal/pflagfork/flagset.go": true,
}

// the lookup-or-create of the completion registry (C09): statements with their line offset inside the function
var registryFuncs = map[string]bool{"storage.go:_storage.get": true}

// the functions whose branch conditions guard that arithmetic
var guardFuncs = map[string]bool{
	"complete.go:complete": true, "internal/shell/bash/patch.go:CompLine": true, "internal/shell/bash/patch.go:Patch": true,
	"internal/shell/cmd_clink/patch.go:Patch": true, "internal/shell/nushell/patch.go:Patch": true,
	"pkg/match/match.go:Match.TrimPrefix": true, "internal/shell/zsh/namedDirectory.go:namedDirectories.match": true,
	"internal/shell/zsh/namedDirectory.go:namedDirectories.Replace": true,
	"internal/pflagfork/flagset.go:FlagSet.lookupPosixShorthandArg": true,
}

func bytesLit(s string) string {
	parts := make([]string, len(s))
	for i := 0; i < len(s); i++ {
		parts[i] = strconv.Itoa(int(s[i]))
	}
	return "(B [" + strings.Join(parts, ";") + "])"
}

func src(fset *token.FileSet, n ast.Node) string {
	var b bytes.Buffer
	printer.Fprint(&b, fset, n)
	return strings.Join(strings.Fields(b.String()), " ")
}

// depth of function-literal nesting at a site: "/0" = in the function itself, "/1" = inside one closure, ...
// localsOf: the names a function declares (receiver, parameters, results, :=, var, range, closure parameters),
// numbered in order of first declaration — so that renaming a local does not change an inventory entry
func localsOf(fd *ast.FuncDecl) map[string]int {
	loc := map[string]int{}
	add := func(id *ast.Ident) {
		if id == nil || id.Name == "_" {
			return
		}
		if _, ok := loc[id.Name]; !ok {
			loc[id.Name] = len(loc) + 1
		}
	}
	fields := func(fl *ast.FieldList) {
		if fl == nil {
			return
		}
		for _, f := range fl.List {
			for _, n := range f.Names {
				add(n)
			}
		}
	}
	fields(fd.Recv)
	fields(fd.Type.Params)
	fields(fd.Type.Results)
	ast.Inspect(fd.Body, func(n ast.Node) bool {
		switch v := n.(type) {
		case *ast.AssignStmt:
			if v.Tok == token.DEFINE {
				for _, l := range v.Lhs {
					if id, ok := l.(*ast.Ident); ok {
						add(id)
					}
				}
			}
		case *ast.RangeStmt:
			if v.Tok == token.DEFINE {
				if id, ok := v.Key.(*ast.Ident); ok {
					add(id)
				}
				if id, ok := v.Value.(*ast.Ident); ok {
					add(id)
				}
			}
		case *ast.ValueSpec:
			for _, n := range v.Names {
				add(n)
			}
		case *ast.FuncLit:
			fields(v.Type.Params)
			fields(v.Type.Results)
		}
		return true
	})
	return loc
}

// normSrc prints a node with the function's local names replaced by $1, $2, ... (field and method names after a
// dot are kept)
func normSrc(fset *token.FileSet, n ast.Node, loc map[string]int) string {
	type saved struct {
		id   *ast.Ident
		name string
	}
	var undo []saved
	local := map[string]int{}
	var walk func(n ast.Node)
	walk = func(n ast.Node) {
		ast.Inspect(n, func(m ast.Node) bool {
			switch v := m.(type) {
			case *ast.SelectorExpr:
				walk(v.X)
				return false
			case *ast.KeyValueExpr:
				walk(v.Value)
				return false
			case *ast.Ident:
				if _, ok := loc[v.Name]; ok {
					// numbered by first occurrence inside this expression: neither a rename nor a new local elsewhere changes it
					k, seen := local[v.Name]
					if !seen {
						k = len(local) + 1
						local[v.Name] = k
					}
					undo = append(undo, saved{v, v.Name})
					v.Name = "$" + strconv.Itoa(k)
				}
			}
			return true
		})
	}
	walk(n)
	out := src(fset, n)
	for _, u := range undo {
		u.id.Name = u.name
	}
	return out
}

func depth(lits []*ast.FuncLit) string { return "/" + strconv.Itoa(len(lits)) }

type inv struct{ items []string }

func (i *inv) add(s string) { i.items = append(i.items, s) }

func main() {
	if len(os.Args) != 3 {
		fmt.Fprintln(os.Stderr, "usage: goaudit <repo> <out.v>")
		os.Exit(2)
	}
	repo := os.Args[1]
	var mapRange, captured, goStmt, fileWrite, indexWrite, invokeCalls, sliceSites, guardSites, registrySites inv
	for _, d := range dirs {
		fset := token.NewFileSet()
		pkgs, err := parser.ParseDir(fset, filepath.Join(repo, d), func(fi os.FileInfo) bool {
			return !strings.HasSuffix(fi.Name(), "_test.go")
		}, 0)
		if err != nil {
			continue
		}
		for _, pkg := range pkgs {
			// pass 1: map-typed names of the package
			mapNames := map[string]bool{}
			mapTypes := map[string]bool{}
			var fnames []string
			for fn := range pkg.Files {
				fnames = append(fnames, fn)
			}
			sort.Strings(fnames)
			for _, fn := range fnames {
				ast.Inspect(pkg.Files[fn], func(n ast.Node) bool {
					if ts, ok := n.(*ast.TypeSpec); ok {
						if _, ok := ts.Type.(*ast.MapType); ok {
							mapTypes[ts.Name.Name] = true
						}
					}
					return true
				})
			}
			isMapType := func(e ast.Expr) bool {
				switch t := e.(type) {
				case *ast.MapType:
					return true
				case *ast.Ident:
					return mapTypes[t.Name]
				}
				return false
			}
			isMapExpr := func(e ast.Expr) bool {
				switch v := e.(type) {
				case *ast.CallExpr:
					if id, ok := v.Fun.(*ast.Ident); ok && id.Name == "make" && len(v.Args) > 0 {
						return isMapType(v.Args[0])
					}
				case *ast.CompositeLit:
					return v.Type != nil && isMapType(v.Type)
				}
				return false
			}
			for _, fn := range fnames {
				ast.Inspect(pkg.Files[fn], func(n ast.Node) bool {
					switch v := n.(type) {
					case *ast.Field:
						if isMapType(v.Type) {
							for _, nm := range v.Names {
								mapNames[nm.Name] = true
							}
						}
					case *ast.ValueSpec:
						for i, nm := range v.Names {
							if (v.Type != nil && isMapType(v.Type)) || (i < len(v.Values) && isMapExpr(v.Values[i])) {
								mapNames[nm.Name] = true
							}
						}
					case *ast.AssignStmt:
						for i, l := range v.Lhs {
							if id, ok := l.(*ast.Ident); ok && i < len(v.Rhs) && isMapExpr(v.Rhs[i]) {
								mapNames[id.Name] = true
							}
						}
					}
					return true
				})
			}
			lastName := func(e ast.Expr) string {
				switch v := e.(type) {
				case *ast.Ident:
					return v.Name
				case *ast.SelectorExpr:
					return v.Sel.Name
				}
				return ""
			}
			// pass 2: sites
			for _, fn := range fnames {
				rel, _ := filepath.Rel(repo, fn)
				for _, decl := range pkg.Files[fn].Decls {
					fd, ok := decl.(*ast.FuncDecl)
					if !ok || fd.Body == nil {
						continue
					}
					fname := fd.Name.Name
					if fd.Recv != nil && len(fd.Recv.List) > 0 {
						fname = strings.TrimPrefix(src(fset, fd.Recv.List[0].Type), "*") + "." + fname
					}
					where := rel + ":" + fname
					loc := localsOf(fd)
					// parameters / receiver declared with a non-map type shadow package-level map names
					notMap := map[string]bool{}
					var plist []*ast.Field
					if fd.Recv != nil {
						plist = append(plist, fd.Recv.List...)
					}
					plist = append(plist, fd.Type.Params.List...)
					for _, f := range plist {
						if !isMapType(f.Type) {
							for _, nm := range f.Names {
								notMap[nm.Name] = true
							}
						}
					}
					// declared names per function literal for captured writes
					var walk func(n ast.Node, lits []*ast.FuncLit)
					declaredIn := map[*ast.FuncLit]map[string]bool{}
					walk = func(n ast.Node, lits []*ast.FuncLit) {
						ast.Inspect(n, func(m ast.Node) bool {
							if m == nil {
								return true
							}
							switch v := m.(type) {
							case *ast.FuncLit:
								if len(lits) > 0 && v == lits[len(lits)-1] {
									return true
								}
								d := map[string]bool{}
								for _, f := range v.Type.Params.List {
									for _, nm := range f.Names {
										d[nm.Name] = true
									}
								}
								declaredIn[v] = d
								walk(v.Body, append(lits, v))
								return false
							case *ast.RangeStmt:
								if id, isIdent := v.X.(*ast.Ident); isIdent && notMap[id.Name] {
									// a plain parameter of non-map type
								} else if nm := lastName(v.X); nm != "" && mapNames[nm] {
									mapRange.add(where + ": range " + src(fset, v.X))
								}
								if len(lits) > 0 {
									for _, e := range []ast.Expr{v.Key, v.Value} {
										if id, ok := e.(*ast.Ident); ok && v.Tok == token.DEFINE {
											declaredIn[lits[len(lits)-1]][id.Name] = true
										}
									}
								}
							case *ast.AssignStmt:
								if registryFuncs[where] {
									registrySites.add(where + " @" + strconv.Itoa(fset.Position(v.Pos()).Line-fset.Position(fd.Pos()).Line) + ": " + normSrc(fset, v, loc))
								}
								for _, l := range v.Lhs {
									if ix, ok := l.(*ast.IndexExpr); ok {
										if nm := lastName(ix.X); nm == "" || !mapNames[nm] {
											indexWrite.add(where + ": " + src(fset, l) + " " + v.Tok.String())
										}
									}
								}
								if len(lits) > 0 {
									cur := lits[len(lits)-1]
									for _, l := range v.Lhs {
										root := l
										for {
											switch r := root.(type) {
											case *ast.SelectorExpr:
												root = r.X
												continue
											case *ast.IndexExpr:
												root = r.X
												continue
											case *ast.StarExpr:
												root = r.X
												continue
											}
											break
										}
										id, ok := root.(*ast.Ident)
										if !ok || id.Name == "_" {
											continue
										}
										if v.Tok == token.DEFINE && root == l {
											declaredIn[cur][id.Name] = true
											continue
										}
										local := false
										for _, fl := range lits {
											if declaredIn[fl][id.Name] {
												local = true
											}
										}
										if !local {
											captured.add(where + ": " + normSrc(fset, l, loc) + " " + v.Tok.String())
										}
									}
								}
							case *ast.DeclStmt:
								if len(lits) > 0 {
									if gd, ok := v.Decl.(*ast.GenDecl); ok {
										for _, s := range gd.Specs {
											if vs, ok := s.(*ast.ValueSpec); ok {
												for _, nm := range vs.Names {
													declaredIn[lits[len(lits)-1]][nm.Name] = true
												}
											}
										}
									}
								}
							case *ast.ExprStmt:
								if call, ok := v.X.(*ast.CallExpr); ok && len(lits) > 0 {
									if sel, ok := call.Fun.(*ast.SelectorExpr); ok {
										switch sel.Sel.Name {
										case "Add", "Merge", "Suppress", "Setenv":
											root := sel.X
											for {
												if r, ok := root.(*ast.SelectorExpr); ok {
													root = r.X
													continue
												}
												break
											}
											if id, ok := root.(*ast.Ident); ok {
												local := false
												for _, fl := range lits {
													if declaredIn[fl][id.Name] {
														local = true
													}
												}
												if !local {
													captured.add(where + ": " + normSrc(fset, call.Fun, loc) + "()")
												}
											}
										}
									}
								}
							case *ast.GoStmt:
								goStmt.add(where + depth(lits) + ": go")
							case *ast.SendStmt:
								goStmt.add(where + depth(lits) + ": send " + normSrc(fset, v.Chan, loc))
							case *ast.UnaryExpr:
								if v.Op == token.ARROW {
									goStmt.add(where + depth(lits) + ": recv " + normSrc(fset, v.X, loc))
								}
							case *ast.SelectStmt:
								goStmt.add(where + depth(lits) + ": select")
							case *ast.IfStmt:
								if guardFuncs[where] {
									guardSites.add(where + ": if " + normSrc(fset, v.Cond, loc))
								}
								if registryFuncs[where] {
									c := normSrc(fset, v.Cond, loc)
									if v.Init != nil {
										c = normSrc(fset, v.Init, loc) + "; " + c
									}
									registrySites.add(where + " @" + strconv.Itoa(fset.Position(v.Pos()).Line-fset.Position(fd.Pos()).Line) + ": if " + c)
								}
							case *ast.CaseClause:
								if guardFuncs[where] {
									for _, e := range v.List {
										guardSites.add(where + ": case " + normSrc(fset, e, loc))
									}
								}
							case *ast.ForStmt:
								if guardFuncs[where] && v.Cond != nil {
									guardSites.add(where + ": for " + normSrc(fset, v.Cond, loc))
								}
							case *ast.SliceExpr:
								if sliceFiles[rel] {
									sliceSites.add(where + ": " + normSrc(fset, v, loc))
								}
							case *ast.IndexExpr:
								if sliceFiles[rel] {
									if nm := lastName(v.X); !(nm != "" && mapNames[nm] && !notMap[nm]) {
										sliceSites.add(where + ": " + normSrc(fset, v, loc))
									}
								}
							case *ast.CallExpr:
								s := src(fset, v.Fun)
								if registryFuncs[where] && (strings.HasSuffix(s, "Lock") || strings.HasSuffix(s, "Unlock")) {
									registrySites.add(where + " @" + strconv.Itoa(fset.Position(v.Pos()).Line-fset.Position(fd.Pos()).Line) + ": " + s)
								}
								if fname == "Action.Invoke" {
									invokeCalls.add(where + ": call " + s)
								}
								switch s {
								case "os.WriteFile", "os.Rename", "os.Create", "os.OpenFile", "os.Remove", "os.RemoveAll", "os.MkdirAll", "os.CreateTemp", "os.Chtimes":
									fileWrite.add(where + ": " + s)
								}
								if id, ok := v.Fun.(*ast.Ident); ok && id.Name == "make" && len(v.Args) > 0 {
									if _, ok := v.Args[0].(*ast.ChanType); ok {
										// the element type does not matter to the protocol, the buffer size does
										size := "0"
										if len(v.Args) > 1 {
											size = normSrc(fset, v.Args[1], loc)
										}
										goStmt.add(where + depth(lits) + ": make(chan, " + size + ")")
									}
								}
								if s == "time.After" {
									goStmt.add(where + depth(lits) + ": time.After")
								}
							}
							return true
						})
					}
					walk(fd.Body, nil)
				}
			}
		}
	}
	var out strings.Builder
	out.WriteString("(* Gen/Sites.v — GENERATED by tools/goaudit from the Go source; do not edit *)\nFrom CV Require Import Base.Str.\n\n")
	emit := func(name string, i inv) {
		sort.Strings(i.items)
		out.WriteString("Definition " + name + " : list str := [\n")
		for k, s := range i.items {
			sep := ";"
			if k == len(i.items)-1 {
				sep = ""
			}
			out.WriteString("  " + bytesLit(s) + sep + "  (* " + strings.ReplaceAll(strings.ReplaceAll(s, "*)", "* )"), "\"", "''") + " *)\n")
		}
		out.WriteString("].\n\n")
	}
	emit("map_range_sites", mapRange)
	emit("captured_write_sites", captured)
	emit("go_stmt_sites", goStmt)
	emit("file_write_sites", fileWrite)
	emit("index_write_sites", indexWrite)
	emit("invoke_call_sites", invokeCalls)
	emit("slice_sites", sliceSites)
	emit("guard_sites", guardSites)
	emit("registry_sites", registrySites)
	old, _ := os.ReadFile(os.Args[2])
	if string(old) != out.String() {
		if err := os.WriteFile(os.Args[2], []byte(out.String()), 0o644); err != nil {
			fmt.Fprintln(os.Stderr, err)
			os.Exit(1)
		}
	}
}
