// gotables — translator from carapace's Go source to Gallina tables.
//
// usage: gotables <repo> <out.v>
//
// Walks the non-test .go files of the packages listed in `dirs`, and emits as Coq
// definitions (byte lists) everything that is *data*:
//   - every strings.NewReplacer(<constants>...)       -> <pkg>_<name>_pairs : list (str*str)
//                                                         <pkg>_<name> : table   (when all keys are 1 byte)
//   - every strings.ContainsAny(x, <constant expr>)   -> <pkg>_<func>_any<k> : str
//   - the character set built in bash.requiresQuoting -> bash_requiresQuoting_chars
//   - `case "a", "b":` string sets of `switch shell`   -> shell_Value_case<k> : list str
//   - selected integer constants (maxLength, 500)
//   - ByDisplay.Less / ByValue.Less field lists
// Only go/parser, go/ast, go/token, strconv are used.  A pattern that cannot be folded
// to a constant is reported in the output as a comment and omitted, so that the Coq
// build fails where a model depends on it (a broken tie, never a silent default).
package main

import (
	"fmt"
	"go/ast"
	"go/parser"
	"go/token"
	"os"
	"path/filepath"
	"sort"
	"strconv"
	"strings"
)

var dirs = []string{
	".", "internal/common", "internal/shell", "internal/shell/bash", "internal/shell/bash_ble",
	"internal/shell/cmd_clink", "internal/shell/elvish", "internal/shell/export", "internal/shell/fish",
	"internal/shell/ion", "internal/shell/nushell", "internal/shell/oil", "internal/shell/powershell",
	"internal/shell/tcsh", "internal/shell/xonsh", "internal/shell/zsh", "internal/pflagfork",
	"internal/cache", "pkg/cache", "pkg/cache/key", "pkg/match", "internal/export", "internal/env",
}

var out strings.Builder
var emitted = map[string]bool{}

func bytesLit(s string) string {
	parts := make([]string, len(s))
	for i := 0; i < len(s); i++ {
		parts[i] = strconv.Itoa(int(s[i]))
	}
	return "(B [" + strings.Join(parts, ";") + "])"
}

func byteLit(c byte) string { return "(byte " + strconv.Itoa(int(c)) + ")" }

// constString folds a constant string expression (literals, +, parenthesised).
func constString(e ast.Expr, env map[string]string) (string, bool) {
	switch v := e.(type) {
	case *ast.BasicLit:
		switch v.Kind {
		case token.STRING:
			s, err := strconv.Unquote(v.Value)
			return s, err == nil
		case token.CHAR:
			s, err := strconv.Unquote(v.Value)
			return s, err == nil
		}
	case *ast.BinaryExpr:
		if v.Op == token.ADD {
			a, ok1 := constString(v.X, env)
			b, ok2 := constString(v.Y, env)
			return a + b, ok1 && ok2
		}
	case *ast.ParenExpr:
		return constString(v.X, env)
	case *ast.Ident:
		if s, ok := env[v.Name]; ok {
			return s, true
		}
	case *ast.IndexExpr: // "'"[0]
		if s, ok := constString(v.X, env); ok {
			if bl, ok := v.Index.(*ast.BasicLit); ok && bl.Kind == token.INT {
				i, _ := strconv.Atoi(bl.Value)
				if i < len(s) {
					return s[i : i+1], true
				}
			}
		}
	}
	return "", false
}

func isSel(e ast.Expr, pkg, name string) bool {
	if s, ok := e.(*ast.SelectorExpr); ok {
		if id, ok := s.X.(*ast.Ident); ok {
			return id.Name == pkg && s.Sel.Name == name
		}
	}
	return false
}

func define(name, typ, body, comment string) {
	if emitted[name] {
		// keep names unique and deterministic
		for i := 2; ; i++ {
			n := fmt.Sprintf("%s_%d", name, i)
			if !emitted[n] {
				name = n
				break
			}
		}
	}
	emitted[name] = true
	if comment != "" {
		fmt.Fprintf(&out, "(* %s *)\n", strings.ReplaceAll(strings.ReplaceAll(comment, "(*", "( *"), "*)", "* )"))
	}
	fmt.Fprintf(&out, "Definition %s : %s :=\n  %s.\n\n", name, typ, body)
}

func emitReplacer(name string, call *ast.CallExpr, where string) {
	var pairs [][2]string
	if len(call.Args)%2 != 0 {
		fmt.Fprintf(&out, "(* UNTRANSLATED %s: odd argument count at %s *)\n\n", name, where)
		return
	}
	for i := 0; i < len(call.Args); i += 2 {
		a, ok1 := constString(call.Args[i], nil)
		b, ok2 := constString(call.Args[i+1], nil)
		if !ok1 || !ok2 {
			fmt.Fprintf(&out, "(* UNTRANSLATED %s: non-constant argument at %s *)\n\n", name, where)
			return
		}
		pairs = append(pairs, [2]string{a, b})
	}
	items := make([]string, len(pairs))
	single := true
	for i, p := range pairs {
		items[i] = "(" + bytesLit(p[0]) + ", " + bytesLit(p[1]) + ")"
		if len(p[0]) != 1 {
			single = false
		}
	}
	define(name+"_pairs", "list (str * str)", "["+strings.Join(items, ";\n   ")+"]", "strings.NewReplacer at "+where)
	if single {
		items1 := make([]string, len(pairs))
		for i, p := range pairs {
			items1[i] = "(" + byteLit(p[0][0]) + ", " + bytesLit(p[1]) + ")"
		}
		define(name, "table", "["+strings.Join(items1, ";\n   ")+"]", "")
	}
}

type visitor struct {
	pkg   string
	fn    string
	file  string
	fset  *token.FileSet
	anyN  map[string]int
	caseN map[string]int
	replN map[string]int
}

func (v *visitor) where(n ast.Node) string {
	return fmt.Sprintf("%s:%s", v.file, v.fn)
}

func (v *visitor) handleAssign(names []ast.Expr, values []ast.Expr, n ast.Node) {
	for i, val := range values {
		if i >= len(names) {
			break
		}
		call, ok := val.(*ast.CallExpr)
		if !ok || !isSel(call.Fun, "strings", "NewReplacer") {
			continue
		}
		id, ok := names[i].(*ast.Ident)
		if !ok {
			continue
		}
		name := v.pkg + "_" + id.Name
		if v.fn != "" {
			name = v.pkg + "_" + v.fn + "_" + id.Name
		}
		emitReplacer(name, call, v.where(n))
		call.Fun = &ast.Ident{Name: "__done"} // do not emit again as anonymous
	}
}

func (v *visitor) Visit(n ast.Node) ast.Visitor {
	switch x := n.(type) {
	case *ast.ValueSpec:
		names := make([]ast.Expr, len(x.Names))
		for i, id := range x.Names {
			names[i] = id
		}
		v.handleAssign(names, x.Values, n)
	case *ast.AssignStmt:
		v.handleAssign(x.Lhs, x.Rhs, n)
	case *ast.CallExpr:
		if isSel(x.Fun, "strings", "NewReplacer") { // anonymous (inline) replacer
			v.replN[v.fn]++
			name := fmt.Sprintf("%s_%s_replacer%d", v.pkg, v.fn, v.replN[v.fn])
			emitReplacer(name, x, v.where(n))
		}
		if isSel(x.Fun, "strings", "ContainsAny") && len(x.Args) == 2 {
			v.anyN[v.fn]++
			name := fmt.Sprintf("%s_%s_any%d", v.pkg, v.fn, v.anyN[v.fn])
			if s, ok := constString(x.Args[1], nil); ok {
				define(name, "str", bytesLit(s), "strings.ContainsAny at "+v.where(n))
			} else if v.fn != "requiresQuoting" {
				fmt.Fprintf(&out, "(* UNTRANSLATED %s: non-constant set at %s *)\n\n", name, v.where(n))
			}
		}
	case *ast.CaseClause:
		if v.pkg == "shell" && v.fn == "Value" && len(x.List) > 0 {
			var items []string
			all := true
			for _, e := range x.List {
				s, ok := constString(e, nil)
				if !ok {
					all = false
					break
				}
				items = append(items, bytesLit(s))
			}
			if all {
				v.caseN[v.fn]++
				define(fmt.Sprintf("shell_Value_case%d", v.caseN[v.fn]), "list str", "["+strings.Join(items, "; ")+"]", "case clause in "+v.where(n))
			}
		}
	}
	return v
}

// requiresQuoting: the character set handed to strings.ContainsAny, as the concatenation of its constant
// parts in order (string literals, package-level string constants, local variables built from them with
// = / := / +=), excluding the os.Getenv("COMP_WORDBREAKS") term (COMP_WORDBREAKS is an input of the model).
var pkgConsts = map[string]string{} // package-level string constants of the file being translated

func emitRequiresQuoting(fd *ast.FuncDecl, where string) {
	type val struct {
		s      string
		getenv bool
	}
	locals := map[string]val{}
	var eval func(e ast.Expr) (val, bool)
	eval = func(e ast.Expr) (val, bool) {
		switch v := e.(type) {
		case *ast.BasicLit, *ast.IndexExpr:
			s, ok := constString(e, pkgConsts)
			return val{s, false}, ok
		case *ast.ParenExpr:
			return eval(v.X)
		case *ast.Ident:
			if l, ok := locals[v.Name]; ok {
				return l, true
			}
			if s, ok := pkgConsts[v.Name]; ok {
				return val{s, false}, true
			}
		case *ast.BinaryExpr:
			if v.Op == token.ADD {
				a, ok1 := eval(v.X)
				b, ok2 := eval(v.Y)
				return val{a.s + b.s, a.getenv || b.getenv}, ok1 && ok2
			}
		case *ast.CallExpr:
			if isSel(v.Fun, "os", "Getenv") && len(v.Args) == 1 {
				if s, ok := constString(v.Args[0], nil); ok && s == "COMP_WORDBREAKS" {
					return val{"", true}, true
				}
			}
		}
		return val{}, false
	}
	okAll, found := true, false
	var result val
	ast.Inspect(fd.Body, func(n ast.Node) bool {
		switch v := n.(type) {
		case *ast.AssignStmt:
			if id, ok := v.Lhs[0].(*ast.Ident); ok && len(v.Rhs) == 1 {
				if r, ok := eval(v.Rhs[0]); ok {
					if v.Tok == token.ADD_ASSIGN {
						l := locals[id.Name]
						locals[id.Name] = val{l.s + r.s, l.getenv || r.getenv}
					} else {
						locals[id.Name] = r
					}
				} else {
					okAll = false
				}
			}
		case *ast.CallExpr:
			if isSel(v.Fun, "strings", "ContainsAny") && len(v.Args) == 2 {
				if r, ok := eval(v.Args[1]); ok {
					result, found = r, true
				} else {
					okAll = false
				}
			}
		}
		return true
	})
	if !okAll || !found {
		fmt.Fprintf(&out, "(* UNTRANSLATED bash_requiresQuoting_chars at %s *)\n\n", where)
		return
	}
	define("bash_requiresQuoting_chars", "str", bytesLit(result.s), "constant part of the ContainsAny set in "+where)
	define("bash_requiresQuoting_uses_wordbreaks", "bool", map[bool]string{true: "true", false: "false"}[result.getenv], "")
}

// Less bodies of ByDisplay / ByValue: the field names compared, in order of appearance.
func emitLess(fd *ast.FuncDecl, recv string) {
	var fields []string
	ast.Inspect(fd.Body, func(n ast.Node) bool {
		if s, ok := n.(*ast.SelectorExpr); ok {
			if _, ok := s.X.(*ast.IndexExpr); ok {
				f := s.Sel.Name
				if len(fields) == 0 || fields[len(fields)-1] != f {
					fields = append(fields, f)
				}
			}
		}
		return true
	})
	items := make([]string, len(fields))
	for i, f := range fields {
		items[i] = bytesLit(f)
	}
	define("common_"+recv+"_less_fields", "list str", "["+strings.Join(items, "; ")+"]", "fields read by "+recv+".Less: "+strings.Join(fields, ","))
}

func intConst(fd *ast.FuncDecl, varName string) (string, bool) {
	res, found := "", false
	ast.Inspect(fd.Body, func(n ast.Node) bool {
		if as, ok := n.(*ast.AssignStmt); ok && len(as.Lhs) == 1 {
			if id, ok := as.Lhs[0].(*ast.Ident); ok && id.Name == varName {
				if bl, ok := as.Rhs[0].(*ast.BasicLit); ok && bl.Kind == token.INT {
					res, found = bl.Value, true
				}
			}
		}
		return true
	})
	return res, found
}

func main() {
	if len(os.Args) != 3 {
		fmt.Fprintln(os.Stderr, "usage: gotables <repo> <out.v>")
		os.Exit(2)
	}
	repo := os.Args[1]
	out.WriteString("(* Gen/Tables.v — GENERATED by tools/gotables from the Go source; do not edit *)\n")
	out.WriteString("From CV Require Import Base.Str.\n\n")
	fset := token.NewFileSet()
	for _, d := range dirs {
		matches, _ := filepath.Glob(filepath.Join(repo, d, "*.go"))
		sort.Strings(matches)
		for _, path := range matches {
			if strings.HasSuffix(path, "_test.go") {
				continue
			}
			f, err := parser.ParseFile(fset, path, nil, 0)
			if err != nil {
				fmt.Fprintf(&out, "(* UNPARSED %s: %v *)\n\n", path, err)
				continue
			}
			rel, _ := filepath.Rel(repo, path)
			pkg := f.Name.Name
			// package-level string constants of this file (folded in declaration order)
			pkgConsts = map[string]string{}
			for _, decl := range f.Decls {
				if gd, ok := decl.(*ast.GenDecl); ok && gd.Tok == token.CONST {
					for _, sp := range gd.Specs {
						if vs, ok := sp.(*ast.ValueSpec); ok {
							for i, nm := range vs.Names {
								if i < len(vs.Values) {
									if s, ok := constString(vs.Values[i], pkgConsts); ok {
										pkgConsts[nm.Name] = s
									}
								}
							}
						}
					}
				}
			}
			for _, decl := range f.Decls {
				v := &visitor{pkg: pkg, file: rel, fset: fset, anyN: map[string]int{}, caseN: map[string]int{}, replN: map[string]int{}}
				switch dd := decl.(type) {
				case *ast.FuncDecl:
					v.fn = dd.Name.Name
					recv := ""
					if dd.Recv != nil && len(dd.Recv.List) > 0 {
						switch t := dd.Recv.List[0].Type.(type) {
						case *ast.Ident:
							recv = t.Name
						case *ast.StarExpr:
							if id, ok := t.X.(*ast.Ident); ok {
								recv = id.Name
							}
						}
						v.fn = recv + "_" + dd.Name.Name
					}
					if dd.Body == nil {
						continue
					}
					if pkg == "bash" && dd.Name.Name == "requiresQuoting" {
						emitRequiresQuoting(dd, rel+":requiresQuoting")
					}
					if pkg == "common" && dd.Name.Name == "Less" && (recv == "ByDisplay" || recv == "ByValue") {
						emitLess(dd, recv)
					}
					if pkg == "common" && dd.Name.Name == "TrimmedDescription" {
						if s, ok := intConst(dd, "maxLength"); ok {
							define("common_TrimmedDescription_maxLength", "nat", s, "maxLength in "+rel)
						}
					}
					ast.Walk(v, dd.Body)
				case *ast.GenDecl:
					ast.Walk(v, dd)
				}
			}
		}
	}
	data := out.String()
	if old, err := os.ReadFile(os.Args[2]); err == nil && string(old) == data {
		return // unchanged: keep mtime so that make stays incremental
	}
	if err := os.WriteFile(os.Args[2], []byte(data), 0o644); err != nil {
		fmt.Fprintln(os.Stderr, err)
		os.Exit(1)
	}
}
