#!/usr/bin/env python3
"""tools/manifest_add.py <PID> <design_ref> <technique> <text> — register (or update) a check in MANIFEST.json"""
import json, sys
pid, ref, tech, text = sys.argv[1:5]
note_extra = sys.argv[5] if len(sys.argv) > 5 else ""
m = json.load(open("MANIFEST.json"))
NOTE = ("Trusted: Coq 8.16.1 kernel; tools/gotables (tables regenerated from /repo each run); ExtrOcamlBasic-only extraction + OCaml "
        "driver; Go harness + python glue (generation, canonicalisation, known-finding matching). ")
entry = {
    "property_id": pid, "quick_cmd": "./check %s quick" % pid, "thorough_cmd": "./check %s thorough" % pid,
    "evidence_file": "evidence/%s.json" % pid, "replay_cmd_template": "./check %s --replay {path}" % pid,
    "engine": "coq-model+harness",
    "level_claimed": {"category": "proof", "text": text, "design_ref": ref},
    "level_note": NOTE + note_extra, "technique": tech,
}
m["checks"] = [c for c in m["checks"] if c["property_id"] != pid] + [entry]
m["checks"].sort(key=lambda c: c["property_id"])
m["not_applicable"] = [n for n in m.get("not_applicable", []) if n["property_id"] != pid]
for e in m["engines"]:
    if pid not in e["serves_properties"]:
        e["serves_properties"] = sorted(e["serves_properties"] + [pid])
json.dump(m, open("MANIFEST.json", "w"), indent=1)
