#!/usr/bin/env python3
"""tools/refactor_run.py <out-dir> <name> — a behaviour-preserving refactoring written by a sub-agent: check that it
applies and that the test-suite passes with it, then apply it to /repo, run EVERY quick check, undo it, and record
what the checks said in refactorings/<name>/ (patch.diff, meta.json with the verdicts).  Evidence files are restored."""
import json, os, shutil, subprocess, sys
out, name = sys.argv[1], sys.argv[2]
os.chdir("/verif")
if subprocess.run(["git", "-C", "/repo", "status", "--porcelain"], capture_output=True, text=True).stdout.strip():
    print("repo not clean"); sys.exit(2)
patch = os.path.join(out, "patch.diff")
if subprocess.run(["git", "-C", "/repo", "apply", "--check", patch], capture_output=True).returncode != 0:
    print(name, "patch does not apply"); sys.exit(1)
subprocess.run(["git", "-C", "/repo", "apply", patch], check=True)
res = {}
try:
    t = subprocess.run(["/verif/tools/repo_test.sh"], capture_output=True, text=True)
    tests_ok = "TESTS PASS" in t.stdout
    if tests_ok:
        saved = {f: open("evidence/" + f, "rb").read() for f in os.listdir("evidence")}
        for i in range(1, 21):
            pid = "C%02d" % i
            r = subprocess.run(["./check", pid, "quick"], capture_output=True, text=True)
            v = [l for l in r.stdout.split("\n") if l.startswith("VIOLATION")]
            if v:
                res[pid] = ["no-failing-input-found" if l.endswith("no-failing-input-found") else "FAILING-INPUT" for l in v]
                if any(x == "FAILING-INPUT" for x in res[pid]):
                    rp = v[0].split("replay=")[1].split()[0]
                    try:
                        rj = json.load(open(rp))
                        res[pid].append(json.dumps(rj.get("oracle_failure"))[:300])
                    except Exception:
                        pass
        for f, b in saved.items():
            open("evidence/" + f, "wb").write(b)
finally:
    subprocess.run(["git", "-C", "/repo", "checkout", "--", "."], check=True)
    subprocess.run(["git", "-C", "/repo", "clean", "-fdq"], check=False)
d = os.path.join("refactorings", name)
os.makedirs(d, exist_ok=True)
if os.path.abspath(patch) != os.path.abspath(os.path.join(d, "patch.diff")):
    shutil.copy(patch, d)
meta = json.load(open(os.path.join(out, "meta.json"))) if os.path.exists(os.path.join(out, "meta.json")) else {}
meta["tests_pass_with_it"] = tests_ok
meta["checks_raising_an_alarm"] = res
json.dump(meta, open(os.path.join(d, "meta.json"), "w"), indent=1)
print(name, "tests_ok=%s" % tests_ok, res if res else "no check raised an alarm")
