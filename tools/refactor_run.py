#!/usr/bin/env python3
"""tools/refactor_run.py <out-dir> <name> — a behaviour-preserving refactoring written by a sub-agent: check that it
applies and that the test-suite passes with it, then apply it to a SCRATCH COPY of /repo (tools/scratch.py), run
EVERY quick check from a scratch copy of /verif against it, and record what the checks said in refactorings/<name>/
(patch.diff, meta.json with the verdicts).  /repo, /verif/evidence and /verif/replay are never touched."""
import json, os, shutil, subprocess, sys
sys.path.insert(0, os.path.dirname(os.path.abspath(__file__)))
import scratch
out, name = sys.argv[1], sys.argv[2]
os.chdir("/verif")
patch = os.path.abspath(os.path.join(out, "patch.diff"))
_cm = scratch.copies("refactor-" + name)
VDIR, RDIR, ENV = _cm.__enter__()
import atexit
atexit.register(lambda: _cm.__exit__(None, None, None))
if subprocess.run(["git", "-C", RDIR, "apply", "--check", patch], capture_output=True).returncode != 0:
    print(name, "patch does not apply"); sys.exit(1)
subprocess.run(["git", "-C", RDIR, "apply", patch], check=True)
res = {}
try:
    t = subprocess.run(["/verif/tools/repo_test.sh", RDIR], capture_output=True, text=True)
    tests_ok = "TESTS PASS" in t.stdout
    if tests_ok:
        for i in range(1, 21):
            pid = "C%02d" % i
            r = subprocess.run([os.path.join(VDIR, "check"), pid, "quick"], capture_output=True, text=True, env=ENV)
            v = [l for l in r.stdout.split("\n") if l.startswith("VIOLATION")]
            if v:
                res[pid] = ["no-failing-input-found" if l.endswith("no-failing-input-found") else "FAILING-INPUT" for l in v]
                if any(x == "FAILING-INPUT" for x in res[pid]):
                    rp = os.path.join(VDIR, v[0].split("replay=")[1].split()[0])
                    try:
                        rj = json.load(open(rp))
                        res[pid].append(json.dumps(rj.get("oracle_failure"))[:300])
                    except Exception:
                        pass
finally:
    scratch.restore(RDIR)
d = os.path.join("refactorings", name)
os.makedirs(d, exist_ok=True)
if os.path.abspath(patch) != os.path.abspath(os.path.join(d, "patch.diff")):
    shutil.copy(patch, d)
meta = json.load(open(os.path.join(out, "meta.json"))) if os.path.exists(os.path.join(out, "meta.json")) else {}
meta["tests_pass_with_it"] = tests_ok
meta["checks_raising_an_alarm"] = res
json.dump(meta, open(os.path.join(d, "meta.json"), "w"), indent=1)
print(name, "tests_ok=%s" % tests_ok, res if res else "no check raised an alarm")
