#!/bin/bash
# tools/repo_test.sh [repo-dir] — run the pinned test suite on a scratch worktree of the WORKING TREE of /repo (or of
# the given copy of it): committed HEAD + uncommitted diff
set -u
export GOPROXY=off GOSUMDB=off GOTOOLCHAIN=local
R=${1:-/repo}
W=/tmp/repo-test-$$
git -C $R worktree add --detach -f $W HEAD >/dev/null 2>&1 || exit 2
(cd $R && git diff) | (cd $W && git apply --allow-empty 2>/dev/null)
cd $W
OUT=$( (go test -vet=off -count=1 ./... 2>&1; cd example-nonposix && go test -vet=off -count=1 ./... 2>&1; cd ../example && go test -vet=off -count=1 ./... 2>&1) | grep -E "^(FAIL|--- FAIL|panic|ok)" )
cd /; git -C $R worktree remove --force $W; git -C $R worktree prune
echo "$OUT" | grep -vE "^ok" | head -20
echo "packages ok: $(echo "$OUT" | grep -c '^ok')"
if echo "$OUT" | grep -qE "^(FAIL|--- FAIL|panic)"; then echo "TESTS FAIL"; exit 1; fi
echo "TESTS PASS"
