#!/bin/bash
# run the pinned test suite on a scratch worktree of /repo's WORKING TREE (committed HEAD + uncommitted diff)
set -u
export GOPROXY=off GOSUMDB=off GOTOOLCHAIN=local
W=/tmp/repo-test-$$
git -C /repo worktree add --detach -f $W HEAD >/dev/null 2>&1 || exit 2
(cd /repo && git diff) | (cd $W && git apply --allow-empty 2>/dev/null)
cd $W
OUT=$( (go test -vet=off -count=1 ./... 2>&1; cd example-nonposix && go test -vet=off -count=1 ./... 2>&1; cd ../example && go test -vet=off -count=1 ./... 2>&1) | grep -E "^(FAIL|--- FAIL|panic|ok)" )
cd /; git -C /repo worktree remove --force $W; git -C /repo worktree prune
echo "$OUT" | grep -vE "^ok" | head -20
echo "packages ok: $(echo "$OUT" | grep -c '^ok')"
if echo "$OUT" | grep -qE "^(FAIL|--- FAIL|panic)"; then echo "TESTS FAIL"; exit 1; fi
echo "TESTS PASS"
