"""tools/scratch.py — scratch copies of /repo and /verif for experiments that CHANGE the source (seeded changes,
refactorings).  Such experiments never touch /repo itself: an interrupted run (the round-1 seed matrix was cut off
with seeded/C02d applied, DESIGN.md 0.11) can then leave nothing behind in the tree the checks are judged on.

    with scratch.copies() as (vdir, rdir, env):
        subprocess.run(["git", "-C", rdir, "apply", patch]); subprocess.run([vdir + "/check", pid, "quick"], env=env)

The copy of /verif carries the compiled state (coq/*.vo, bin/), so a check only rebuilds what the changed source
invalidates; its harness/go.mod points at the copy of the repository and VERIF_REPO is set for orch/lib.py."""
import contextlib, os, re, shutil, subprocess

BASE = "/var/tmp"


@contextlib.contextmanager
def copies(tag="x"):
    d = os.path.join(BASE, "verif-scratch-%s-%d" % (tag, os.getpid()))
    shutil.rmtree(d, ignore_errors=True)
    os.makedirs(d)
    vdir, rdir = os.path.join(d, "verif"), os.path.join(d, "repo")
    try:
        subprocess.run(["cp", "-a", "/repo", rdir], check=True)
        subprocess.run(["rsync", "-a", "--exclude", ".git", "--exclude", ".work", "--exclude", "replay",
                        "--exclude", ".build.lock", "/verif/", vdir + "/"], check=True)
        gm = os.path.join(vdir, "harness/go.mod")
        s = open(gm).read()
        s2 = re.sub(r"(replace github\.com/carapace-sh/carapace => )/repo\b", lambda m: m.group(1) + rdir, s)
        assert s2 != s, "harness/go.mod: replace directive not found"
        open(gm, "w").write(s2)
        env = dict(os.environ, VERIF_REPO=rdir)
        yield vdir, rdir, env
    finally:
        shutil.rmtree(d, ignore_errors=True)


def restore(rdir):
    subprocess.run(["git", "-C", rdir, "checkout", "--", "."], check=True)
    subprocess.run(["git", "-C", rdir, "clean", "-fdq"], check=False)
