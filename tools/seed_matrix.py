#!/usr/bin/env python3
"""tools/seed_matrix.py — apply every seeded change to /repo in turn, run the quick check of its property,
undo it, and record the outcome in seeded/<id>/meta.json (detected_by / obsolete).  Never leaves /repo dirty."""
import json, os, subprocess, sys
os.chdir("/verif")
only = sys.argv[1:]
rows = []
for d in sorted(os.listdir("seeded")):
    if only and d not in only:
        continue
    mp = os.path.join("seeded", d, "meta.json")
    if not os.path.exists(mp):
        continue
    m = json.load(open(mp))
    pid = m.get("property", d[:3])
    if subprocess.run(["git", "-C", "/repo", "status", "--porcelain"], capture_output=True, text=True).stdout.strip():
        print("repo not clean"); sys.exit(2)
    patch = os.path.abspath(os.path.join("seeded", d, "patch.diff"))
    if subprocess.run(["git", "-C", "/repo", "apply", "--check", patch], capture_output=True).returncode != 0:
        m["status_on_current_tree"] = "obsolete: the patch no longer applies to the repaired tree"
        json.dump(m, open(mp, "w"), indent=1)
        rows.append((d, pid, "does-not-apply")); continue
    subprocess.run(["git", "-C", "/repo", "apply", patch], check=True)
    evp = os.path.join("evidence", pid + ".json")
    saved = open(evp, "rb").read() if os.path.exists(evp) else None   # evidence must describe the unchanged tree
    try:
        r = subprocess.run(["./check", pid, "quick"], capture_output=True, text=True)
    finally:
        subprocess.run(["git", "-C", "/repo", "checkout", "--", "."], check=True)
        subprocess.run(["git", "-C", "/repo", "clean", "-fdq"], check=False)
        if saved is not None:
            open(evp, "wb").write(saved)
    v = [l for l in r.stdout.split("\n") if l.startswith("VIOLATION")]
    if r.returncode == 1 and v:
        kind = "no-failing-input-found" if all(l.endswith("no-failing-input-found") for l in v) else "failing input"
        m["status_on_current_tree"] = "detected by ./check %s quick (%s; %d VIOLATION line(s))" % (pid, kind, len(v))
        rows.append((d, pid, "detected:" + kind))
    else:
        m["status_on_current_tree"] = "NOT detected by ./check %s quick (rc=%d)" % (pid, r.returncode)
        rows.append((d, pid, "MISSED rc=%d" % r.returncode))
    json.dump(m, open(mp, "w"), indent=1)
for r in rows:
    print(*r)
