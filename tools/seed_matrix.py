#!/usr/bin/env python3
"""tools/seed_matrix.py — apply every seeded change in turn to a SCRATCH COPY of /repo (tools/scratch.py), run the
quick check of its property from a scratch copy of /verif against it, undo it, and record the outcome in
seeded/<id>/meta.json (detected_by / obsolete).  /repo, /verif/evidence and /verif/replay are never touched."""
import json, os, subprocess, sys
sys.path.insert(0, os.path.dirname(os.path.abspath(__file__)))
import scratch
os.chdir("/verif")
only = sys.argv[1:]
rows = []
_cm = scratch.copies("seeds")
VDIR, RDIR, ENV = _cm.__enter__()
import atexit
atexit.register(lambda: _cm.__exit__(None, None, None))
for d in sorted(os.listdir("seeded")):
    if only and d not in only:
        continue
    mp = os.path.join("seeded", d, "meta.json")
    if not os.path.exists(mp):
        continue
    m = json.load(open(mp))
    pid = m.get("property", d[:3])
    if subprocess.run(["git", "-C", RDIR, "status", "--porcelain"], capture_output=True, text=True).stdout.strip():
        print("scratch repo not clean"); sys.exit(2)
    patch = os.path.abspath(os.path.join("seeded", d, "patch.diff"))
    if subprocess.run(["git", "-C", RDIR, "apply", "--check", patch], capture_output=True).returncode != 0:
        m["status_on_current_tree"] = "obsolete: the patch no longer applies to the repaired tree"
        json.dump(m, open(mp, "w"), indent=1)
        rows.append((d, pid, "does-not-apply")); continue
    subprocess.run(["git", "-C", RDIR, "apply", patch], check=True)
    try:
        r = subprocess.run([os.path.join(VDIR, "check"), pid, "quick"], capture_output=True, text=True, env=ENV)
    finally:
        scratch.restore(RDIR)
    v = [l for l in r.stdout.split("\n") if l.startswith("VIOLATION")]
    if r.returncode == 1 and v:
        kind = "no-failing-input-found" if all(l.endswith("no-failing-input-found") for l in v) else "failing input"
        m["status_on_current_tree"] = "detected by ./check %s quick (%s; %d VIOLATION line(s))" % (pid, kind, len(v))
        rows.append((d, pid, "detected:" + kind))
    else:
        m["status_on_current_tree"] = "NOT detected by ./check %s quick (rc=%d)" % (pid, r.returncode)
        rows.append((d, pid, "MISSED rc=%d" % r.returncode))
    json.dump(m, open(mp, "w"), indent=1)
for r in rows:
    print(*r)
