#!/bin/bash
# tools/seed_run.sh <seed-dir-name> <PID> [tier] — apply a seeded change to /repo, run the check, undo it.
S=$1; P=$2; T=${3:-quick}
cd /verif
[ -z "$(git -C /repo status --porcelain)" ] || { echo "repo not clean"; exit 2; }
git -C /repo apply /verif/seeded/$S/patch.diff || { echo "SEEDRUN $S: patch does not apply"; exit 2; }
cp evidence/$P.json /tmp/evidence-$P.json.saved 2>/dev/null
out=$(./check $P $T 2>&1); rc=$?
[ -f /tmp/evidence-$P.json.saved ] && mv /tmp/evidence-$P.json.saved evidence/$P.json
git -C /repo checkout -- . ; git -C /repo status --porcelain
echo "$out" | grep -E "^VIOLATION" | head -3
echo "SEEDRUN $S on $P ($T): rc=$rc $(echo "$out" | grep -c '^VIOLATION') violation line(s)"
