#!/bin/bash
# tools/seed_run.sh <seed-dir-name> <PID> [tier] — apply a seeded change to a scratch copy of /repo, run the check
# from a scratch copy of /verif against it (tools/scratch.py); /repo, evidence/ and replay/ are never touched.
S=$1; P=$2; T=${3:-quick}
exec python3 - "$S" "$P" "$T" <<'PY'
import os, subprocess, sys
sys.path.insert(0, "/verif/tools")
import scratch
S, P, T = sys.argv[1:4]
with scratch.copies("seedrun-" + S) as (vdir, rdir, env):
    if subprocess.run(["git", "-C", rdir, "apply", "/verif/seeded/%s/patch.diff" % S]).returncode != 0:
        print("SEEDRUN %s: patch does not apply" % S); sys.exit(2)
    r = subprocess.run([vdir + "/check", P, T], capture_output=True, text=True, env=env)
    v = [l for l in r.stdout.split("\n") if l.startswith("VIOLATION")]
    print("\n".join(v[:3]))
    for l in v[:1]:
        rp = os.path.join(vdir, l.split("replay=")[1].split()[0])
        if os.path.exists(rp):
            print(open(rp).read()[:1500])
    print("SEEDRUN %s on %s (%s): rc=%d %d violation line(s)" % (S, P, T, r.returncode, len(v)))
PY
