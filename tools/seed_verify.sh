#!/bin/bash
# tools/seed_verify.sh <ID> [suffix] — confirm a seeded change produced by a sub-agent in /tmp/mut-<ID><suffix>-out:
# fresh scratch worktree of /repo, patch applies, builds, whole test-suite passes, demo fails
# with the patch and passes without it.  On success the change is stored in /verif/seeded/<ID><suffix>/.
ID=$1; SUF=$2; OUT=/tmp/mut-$ID$SUF-out; W=/tmp/chk-$ID$SUF
export GOPROXY=off GOSUMDB=off GOTOOLCHAIN=local
LOG=/tmp/seedverify-$ID$SUF.log; : > $LOG
fail() { echo "SEED $ID$SUF: REJECTED: $1" | tee -a $LOG; git -C /repo worktree remove --force $W 2>/dev/null; exit 1; }
[ -f $OUT/patch.diff ] || fail "no patch.diff"
git -C /repo worktree remove --force $W 2>/dev/null
git -C /repo worktree add --detach $W HEAD >>$LOG 2>&1 || fail "worktree"
cd $W
DEMO=$(python3 -c "import json;print(json.load(open('$OUT/meta.json')).get('demo_cmd',''))")
# demo files
for f in $OUT/*; do case "$(basename $f)" in patch.diff|meta.json) ;; *) cp -r $f $W/ ;; esac; done
run_demo() { (cd $W && eval "$(echo "$DEMO" | sed "s#/tmp/mut-$ID$SUF#$W#g; s#cd $W && ##")") >>$LOG 2>&1; }
echo "== demo without patch" >>$LOG; run_demo || fail "demo fails without the patch"
git apply $OUT/patch.diff >>$LOG 2>&1 || fail "patch does not apply"
echo "== build" >>$LOG; go build ./... >>$LOG 2>&1 || fail "does not build"
echo "== demo with patch" >>$LOG; if run_demo; then fail "demo passes with the patch"; fi
# whole suite with the patch (demo files moved aside)
mkdir -p /tmp/demo-aside-$ID$SUF; for f in $OUT/*; do b=$(basename $f); case "$b" in patch.diff|meta.json) ;; *) rm -rf $W/$b ;; esac; done
echo "== suite" >>$LOG
(go test -vet=off -count=1 ./... 2>&1 | tee -a $LOG | grep -E "^(FAIL|---)" ) && fail "test suite fails with the patch"
(cd example-nonposix && go test -vet=off -count=1 ./... 2>&1 | tee -a $LOG | grep -E "^(FAIL|---)" ) && fail "nonposix suite fails"
cd /; git -C /repo worktree remove --force $W
mkdir -p /verif/seeded/$ID$SUF; cp -r $OUT/* /verif/seeded/$ID$SUF/
echo "SEED $ID$SUF: CONFIRMED (applies, builds, suite green, demo fails with / passes without)" | tee -a $LOG
