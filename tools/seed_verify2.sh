#!/bin/bash
# tools/seed_verify2.sh <agent-out-dir> <agent-worktree> <dest-name> — confirm a seeded change produced by a sub-agent:
# fresh scratch worktree of /repo, demo passes without the patch, patch applies, builds, demo fails with it, whole
# test-suite (root, example-nonposix, example) passes with it.  On success stored in /verif/seeded/<dest-name>/;
# the agent's worktree and the scratch worktree are removed either way.
OUT=$1; AW=$2; DEST=$3; W=/tmp/chk-$DEST
export GOPROXY=off GOSUMDB=off GOTOOLCHAIN=local
LOG=/tmp/seedverify-$DEST.log; : > $LOG
cleanup() { cd /; git -C /repo worktree remove --force $W 2>/dev/null; git -C /repo worktree remove --force $AW 2>/dev/null; git -C /repo worktree prune; }
fail() { echo "SEED $DEST: REJECTED: $1" | tee -a $LOG; cd /; git -C /repo worktree remove --force $W 2>/dev/null; git -C /repo worktree prune; exit 1; }
[ -f $OUT/patch.diff ] || fail "no patch.diff"
git -C /repo worktree remove --force $W 2>/dev/null
git -C /repo worktree add --detach $W HEAD >>$LOG 2>&1 || fail "worktree"
cd $W
DEMO=$(python3 -c "import json;print(json.load(open('$OUT/meta.json')).get('demo_cmd',''))")
# the package directory of the demo: the last argument of demo_cmd when it is a path like ./internal/cache/
DDIR=$(python3 -c "
import json,re
c=json.load(open('$OUT/meta.json')).get('demo_cmd','').strip().split()
d=c[-1] if c else '.'
print(d.rstrip('/') if re.match(r'^\./[A-Za-z]',d) and not d.endswith('...') else '.')")
for f in $OUT/*; do case "$(basename $f)" in patch.diff|meta.json) ;; *) cp -r $f $W/$DDIR/ ;; esac; done
# demo files that belong into a sub-package: the agent says where in demo_cmd; try the root first, else the package dir of the test's `package` clause is the agent's business
run_demo() { (cd $W && eval "$(echo "$DEMO" | sed "s#$AW#$W#g; s#cd $W && ##")") >>$LOG 2>&1; }
echo "== demo without patch" >>$LOG; run_demo || fail "demo fails without the patch"
git apply $OUT/patch.diff >>$LOG 2>&1 || fail "patch does not apply"
echo "== build" >>$LOG; go build ./... >>$LOG 2>&1 || fail "does not build"
echo "== demo with patch" >>$LOG; if run_demo; then fail "demo passes with the patch"; fi
for f in $OUT/*; do b=$(basename $f); case "$b" in patch.diff|meta.json) ;; *) rm -rf $W/$DDIR/$b ;; esac; done
echo "== suite" >>$LOG
(go test -vet=off -count=1 ./... 2>&1 | tee -a $LOG | grep -E "^(FAIL|---)" ) && fail "test suite fails with the patch"
(cd example-nonposix && go test -vet=off -count=1 ./... 2>&1 | tee -a $LOG | grep -E "^(FAIL|---)" ) && fail "nonposix suite fails"
(cd example && go test -vet=off -count=1 ./... 2>&1 | tee -a $LOG | grep -E "^(FAIL|---)" ) && fail "example suite fails"
cleanup
mkdir -p /verif/seeded/$DEST; cp -r $OUT/* /verif/seeded/$DEST/
echo "SEED $DEST: CONFIRMED (applies, builds, suites green, demo fails with / passes without)" | tee -a $LOG
