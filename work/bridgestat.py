import sys; sys.path.insert(0,'/verif/orch')
import lib, collections
b=lib.build("quick"); print(b.harness_ok, b.harness_log[-1500:] if not b.harness_ok else "", [getattr(b,k) for k in dir(b) if k.endswith('_ok')])
seed=int(sys.argv[1]) if len(sys.argv)>1 else 5
cases,notes,errs=lib.run_harness("bridge",seed,3000,"quick","/verif/work/t-bridge")
print(len(cases),errs[:2])
oo=lib.run_model([("bridge_oracle",f+[b"|"]+i) for _,f,i in cases])
c=collections.Counter(); ex=[]
for (_,f,i),o in zip(cases,oo):
    if o is None: c["None"]+=1; continue
    if o[0]!=b"OK": c["bad:"+o[0].decode()]+=1; ex.append((o,f,i)); continue
    for t in o[1:]:
        c[t.split(b":")[0]+b":"+(t.split(b":")[1] if i[1]==b"B" else b"")]+=1
        if len(ex)<40: ex.append((t,f,i))
print(c)
for t,f,i in ex[:int(sys.argv[2]) if len(sys.argv)>2 else 10]:
    print(t, [x.decode(errors='replace')[:50] for x in (f[-6:] if f[0]==b"A" else f)],"=>",[x.decode(errors='replace')[:60] for x in i[:24]])
print("=== B")
n=0
for (_,f,i),o in zip(cases,oo):
    if o and i[1]==b"B" and len(o)>1:
        n+=1
        if n<=6: print(o[1], [x.decode(errors='replace')[:50] for x in f],"=>",[x.decode(errors='replace')[:80] for x in i[2:9]])
