import sys; sys.path.insert(0,'/verif/orch')
import lib, collections
b=lib.build("quick"); print(b.harness_ok, b.harness_log[-1500:] if not b.harness_ok else "")
seed=int(sys.argv[1]) if len(sys.argv)>1 else 5
cases,notes,errs=lib.run_harness("names",seed,4000,"quick","/verif/work/t-names")
print(len(cases),errs[:2],{k:v for k,v in notes.items() if k!='_stderr'})
oo=lib.run_model([("names_oracle",f+[b"|"]+i) for _,f,i in cases])
c=collections.Counter(); ex=[]
for (_,f,i),o in zip(cases,oo):
    if o is None: c["None"]+=1; continue
    for t in o[1:]:
        k=t.split(b":")[0]; c[k]+=1
        if len(ex)<25: ex.append((t,[x.decode() for x in i[:70]],f))
    if o[0]!=b"OK": c["bad:"+o[0].decode()]+=1
print(c)
from generic import slot_words
for t,i,f in ex[:int(sys.argv[2]) if len(sys.argv)>2 else 12]: print(t.decode(), i, [x.decode() for x in slot_words(f[1:])[0]])
print("----")
n=0
for (_,f,i),o in zip(cases,oo):
    if o is None: continue
    for t in o[1:]:
        if t.startswith(b"names-") or (b":rejected" not in t):
            n+=1
            if n<=14: print(t.decode(), [x.decode() for x in i[:70]], [x.decode() for x in slot_words(f[1:])[0]])
print("==== not accepted")
k=collections.Counter()
for (_,f,i),o in zip(cases,oo):
    if o is None: continue
    for t in o[1:]:
        if t.startswith(b"offered-not-accepted"):
            ws=[x.decode() for x in slot_words(f[1:])[0]]
            why=t.split(b":")[2].decode()
            hasflag=any(w.startswith("-") and len(w)>1 for w in ws)
            key=(i[1].decode(),why.split("-to-")[0],hasflag)
            k[key]+=1
            if k[key]<=2: print(t.decode(), ws, [x.decode() for x in i[1:4]])
print(k)
