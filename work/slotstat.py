import sys; sys.path.insert(0,'/verif/orch')
import lib, collections
b=lib.build("quick"); print(b.harness_ok, b.harness_log[-500:] if not b.harness_ok else "")
seed=int(sys.argv[1]) if len(sys.argv)>1 else 11
cases,notes,errs=lib.run_harness("slot",seed,12000,"quick","/verif/work/t-slot")
print(len(cases),errs[:2])
c=collections.Counter(); bad=[]
for _,f,i in cases:
    if i[0]!=b"ok": c["notok"]+=1; continue
    slots=i[1].split(b"+"); d=i[2]
    if d in (b"-",b"rejected"): c[d.decode()]+=1; continue
    if d in slots: c["agree"]+=1
    else: c["dis"]+=1; bad.append((f,i))
print(c)
def words(f):
    def parse(t):
        n=int(t[2]); t=t[3+n:]
        nf=int(t[0]); t=t[1+4*nf:]
        ns=int(t[1]); t=t[2:]
        for _ in range(ns): t=parse(t)
        return t
    t=parse(f); n=int(t[0]); return [x.decode() for x in t[1:1+n]],t[1+n].decode()
for f,i in bad[:40]:
    print(words(f),[x.decode() for x in i[1:3]])
for f,i in bad[:3]:
    print([x.decode() for x in f])
k=collections.Counter()
for _,f,i in cases:
    if i[0]!=b"ok":
        k[(i[0],i[1][:60] if len(i)>1 else b"")]+=1
print(k.most_common(8))
