import sys; sys.path.insert(0,'/verif/orch')
import lib, collections, time
b=lib.build("quick"); print(b.harness_ok, b.harness_log[-1500:] if not b.harness_ok else "")
t=time.time()
seed=int(sys.argv[1]) if len(sys.argv)>1 else 5
cases,notes,errs=lib.run_harness("total",seed,int(sys.argv[2]) if len(sys.argv)>2 else 8000,"quick","/verif/work/t-total")
print(len(cases),errs[:2],round(time.time()-t,1))
c=collections.Counter()
ex={}
for _,f,i in cases:
    k=(i[0],i[1][:90] if len(i)>1 else b"", i[2][:60] if len(i)>2 else b"")
    c[k]+=1; ex.setdefault(k,f)
for k,v in c.most_common(30):
    print(v,k)
    if k[0]!=b"ok" or k[2]!=b"wellformed": print("     e.g.",[x.decode(errors='replace')[:60] for x in ex[k]])
