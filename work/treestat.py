import sys; sys.path.insert(0,'/verif/orch')
import lib, collections
from generic import slot_words
b=lib.build("quick"); print(b.harness_ok, b.failed_files)
seed=int(sys.argv[1]) if len(sys.argv)>1 else 7
cases,notes,errs=lib.run_harness("tree",seed,int(sys.argv[2]) if len(sys.argv)>2 else 8000,"quick","/verif/work/t-tree")
mo=lib.run_model([("tree",f) for _,f,_ in cases])
c=collections.Counter(); ex=[]
for (_,f,i),m in zip(cases,mo):
    if m is None: c["none"]+=1; continue
    if i[0]!=b"ok": c["implnotok"]+=1; continue
    if i[1]!=b"rejected":
        if m[1]==i[1]: c["cobra-eq"]+=1
        else:
            c["cobra-ne"]+=1
            if len(ex)<6: ex.append(("cobra",f,i,m))
    if i[3] in (b"P",b"D"):
        if m[2]==i[2] and m[3:]==i[3:]: c["slot-eq"]+=1
        else:
            c["slot-ne"]+=1
            if len([e for e in ex if e[0]=="slot"])<8: ex.append(("slot",f,i,m))
    elif i[3]==b"F":
        if m[3:]==i[3:]: c["F-eq"]+=1
        else:
            c["F-ne"]+=1
            if len([e for e in ex if e[0]=="F"])<4: ex.append(("F",f,i,m))
    elif i[3]==b"M":
        c["M-eq" if m[3:4]==[b"M"] else "M-ne"]+=1
print(c)
for k,f,i,m in ex:
    print(k,[x.decode() for x in slot_words(f)[0]],repr(slot_words(f)[1].decode()),[x.decode() for x in i],[x.decode() for x in m])
n=0
k=collections.Counter()
for (_,f,i),m in zip(cases,mo):
    if m is None or i[0]!=b"ok": continue
    if i[3]==b"M" and m[3:4]!=[b"M"]:
        n+=1
        if n<=10: print([x.decode() for x in slot_words(f)[0]],repr(slot_words(f)[1].decode()),[x.decode() for x in m[1:]])
